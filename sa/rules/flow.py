"""G3c - instruction-level path queries on the -O0 IR CFG.

must_pass(fn, sources, killers, sinks): for every source instruction, search forward over the
instruction-level CFG; the search does not continue past a killer; reaching a sink is a failure.
Used for: "every path from a write into the path buffer to the next loop iteration / return passes
the truncation at old_end" and "a byte-wise append is followed by a NUL store before the buffer is
handed to a consumer".
"""
from . import guard as G


def succ_insts(fn, inst):
    b = inst.block
    k = b.insts.index(inst)
    if k + 1 < len(b.insts):
        return [b.insts[k + 1]]
    out = []
    for s in b.succs:
        sb = fn.bmap[s]
        if sb.insts:
            out.append(sb.insts[0])
    return out


def escapes(fn, source, killers, sinks, through_unwind=False):
    """-> first sink reachable from `source` without passing a killer, else None"""
    kill = set(id(k) for k in killers)
    sink = set(id(s) for s in sinks)
    seen = set()
    work = list(succ_insts(fn, source))
    while work:
        i = work.pop()
        if id(i) in seen:
            continue
        seen.add(id(i))
        if id(i) in kill:
            continue
        if id(i) in sink:
            return i
        if i.op == "invoke" and not through_unwind:
            # follow only the normal destination: an exception leaves the protocol altogether
            nb = fn.bmap[i.succs[0]] if i.succs else None
            if nb is not None and nb.insts:
                work.append(nb.insts[0])
            continue
        work.extend(succ_insts(fn, i))
    return None


def back_edges(fn):
    """[(latch block label, header block label)]"""
    d = fn.dom()
    out = []
    for b in fn.blocks:
        if b.label not in d:
            continue
        for s in b.succs:
            if s in d[b.label]:
                out.append((b.label, s))
    return out


def loop_latches_for(fn, inst):
    """terminators of latch blocks of all natural loops that contain inst"""
    res = []
    for latch, header in back_edges(fn):
        # natural loop body: header + nodes that reach latch without passing header
        body = {header, latch}
        work = [latch]
        while work:
            l = work.pop()
            if l == header:
                continue
            for p in fn.bmap[l].preds:
                if p not in body:
                    body.add(p)
                    work.append(p)
        if inst.block.label in body:
            res.append(fn.bmap[latch].insts[-1])
    return res


def slot_of_local(fn, name):
    """alloca slot of the local variable / parameter `name` via llvm.dbg.declare metadata"""
    mod = fn.module
    for i in fn.insts():
        if i.op == "call" and i.callee == "llvm.dbg.declare":
            # call void @llvm.dbg.declare(metadata T* %slot, metadata !N, ...)
            import re
            m = re.search(r'metadata [^,]*? (%[-\w.]+), metadata !(\d+)', i.text)
            if not m:
                continue
            md = mod.md.get(int(m.group(2)))
            if md and re.search(r'name: "%s"' % re.escape(name), md[1]):
                return m.group(1)
    return None


def loads_of(fn, slot):
    return {i.res for i in fn.insts() if i.op == "load" and G.parse_load(i) == slot}


def derived_from_slot(fn, slot):
    """values derived (GEP/bitcast, copies through other slots) from the pointer held in `slot`"""
    return G.derived(fn, slot)
