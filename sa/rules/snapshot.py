"""SNAPSHOT: a function of one thread derives a result from ONE observation of the index the other thread advances.

On the AST of thread-link.cpp: every rvalue use of a shared ring index (write / read / read_lookahead) is a load site.
A ring function belongs to the side of the API methods that reach it; the indices that side never stores are foreign to
it - the other thread may advance them between two loads.  Load sites of a foreign index are labels; labels flow through
local variables (flow-insensitive union) and out of unit helpers (a call carries the labels of the foreign loads in the
helper's closure, one label per call site).  Two *different* labels of the same foreign index meeting in one arithmetic
expression (+ - * / %) mean that a length or offset is computed from two observations that need not agree.
Comparisons are exempt: re-checking a fresh observation against an old one is sound for an index that only advances.
"""
from .. import astlib as A

ARITH = {"+", "-", "*", "/", "%", "+=", "-=", "*=", "/=", "%="}


def _is_store_target(unit, m):
    """m (MemberExpr of a shared index) is the object of an assignment or of .store()"""
    p = unit.parent.get(m.get("id"))
    child = m
    while p is not None and p.get("kind") in ("ImplicitCastExpr", "ParenExpr"):
        child, p = p, unit.parent.get(p.get("id"))
    if p is None:
        return False
    if p.get("kind") == "CXXOperatorCallExpr":
        ks = A.kids(p)
        op = A.src(ks[0]) if ks else ""
        if "=" in op and "==" not in op and "!=" not in op and "<=" not in op and ">=" not in op and len(ks) >= 2 and A.strip_casts(ks[1]).get("id") == m.get("id"):
            return True
    if p.get("kind") == "MemberExpr" and p.get("name") in ("store",):
        return True
    if p.get("kind") == "BinaryOperator" and p.get("opcode") == "=" and A.strip_casts(A.kids(p)[0]).get("id") == m.get("id"):
        return True
    return False


def analyse(unit, shared):
    fns = {}
    for q, fl in unit.functions.items():
        k_ = 0
        for f in fl:
            if unit.body(f) is not None and (A.loc(f)[0] or "").endswith("thread-link.cpp"):
                fns[q if k_ == 0 else "%s#%d" % (q, k_)] = f       # overloads share a name: all of them are nodes
                k_ += 1

    def _named(q, nm):
        q = q.split("#")[0]
        return q == nm or q.split("::")[-1] == nm

    def callees(f):
        out = set()
        for c in A.calls_in(unit.body(f)):
            nm = A.callee_name(c)
            for q in fns:
                if _named(q, nm):
                    out.add(q)
        return out
    cg = {q: callees(f) for q, f in fns.items()}

    def closure(q):
        seen, work = {q}, [q]
        while work:
            for c in cg.get(work.pop(), ()):
                if c not in seen:
                    seen.add(c)
                    work.append(c)
        return seen
    sites = {}            # q -> [(member, node, is_store)]
    for q, f in fns.items():
        acc = []
        for x in A.walk(unit.body(f)):
            if x.get("kind") == "MemberExpr" and x.get("name") in shared:
                acc.append((x.get("name"), x, _is_store_target(unit, x)))
        sites[q] = acc
    stores = {q: {m for m, _, st in sites[q] if st} for q in fns}
    methods = [q for q in fns if "::" in q and q.split("#")[0].split("::")[-1] != q.split("#")[0].split("::")[-2]]
    side_stores = {}
    for q in fns:
        s = set()
        for c in closure(q):
            s |= stores[c]
        for mth in methods:
            cl = closure(mth)
            if q in cl:
                for c in cl:
                    s |= stores[c]
        side_stores[q] = s
    results = []
    for q, f in fns.items():
        if not any(not st for _, _, st in sites[q]):
            continue            # only functions that observe an index themselves
        foreign = set(shared) - side_stores[q]
        if not foreign:
            continue

        def labels_of_call(c):
            nm = A.callee_name(c)
            out = set()
            for g in fns:
                if _named(g, nm):
                    for h in closure(g):
                        for m, node, st in sites[h]:
                            if not st and m in foreign:
                                out.add((m, "call %s@%s" % (nm, A.loc(c)[1])))
            return out
        var = {}

        def labels(e):
            out = set()
            stack = [e]
            while stack:
                x = stack.pop()
                k = x.get("kind")
                if k == "MemberExpr" and x.get("name") in foreign and not _is_store_target(unit, x):
                    out.add((x.get("name"), "load@%s:%s" % (A.loc(x)[1], A.loc(x)[2] if len(A.loc(x)) > 2 else "")))
                if k in ("CallExpr", "CXXMemberCallExpr") and A.callee_name(x) and any(_named(g, A.callee_name(x)) for g in fns):
                    out |= labels_of_call(x)
                if k == "DeclRefExpr":
                    out |= var.get((x.get("referencedDecl") or {}).get("id"), set())
                stack.extend(A.kids(x))
            return out
        body = unit.body(f)
        for _ in range(6):
            changed = False
            for x in A.walk(body):
                if x.get("kind") == "VarDecl" and A.kids(x):
                    l = labels(A.kids(x)[-1])
                    if not l <= var.get(x["id"], set()):
                        var[x["id"]] = var.get(x["id"], set()) | l
                        changed = True
                elif x.get("kind") in ("BinaryOperator", "CompoundAssignOperator") and x.get("opcode", "").endswith("=") and x.get("opcode") not in ("==", "!=", "<=", ">="):
                    tgt = A.ref_id(A.kids(x)[0])
                    if tgt:
                        l = labels(A.kids(x)[1])
                        if not l <= var.get(tgt, set()):
                            var[tgt] = var.get(tgt, set()) | l
                            changed = True
            if not changed:
                break
        mixes = []
        for x in A.walk(body):
            if x.get("kind") in ("BinaryOperator", "CompoundAssignOperator") and x.get("opcode") in ARITH:
                la, lb = labels(A.kids(x)[0]), labels(A.kids(x)[1])
                if x.get("kind") == "CompoundAssignOperator":
                    pass
                for m in foreign:
                    a = {l for l in la if l[0] == m}
                    b = {l for l in lb if l[0] == m}
                    if a and b and (a | b) and len(a | b) > 1 and (a - b or b - a):
                        mixes.append({"index": m, "expression": A.src(x)[:100], "at": A.where(x), "observations": sorted(l[1] for l in a | b)})
        nl = {m: sorted({l[1] for s_ in [labels(body)] for l in s_ if l[0] == m}) for m in foreign}
        results.append((q, f, sorted(foreign), nl, mixes))
    return results
