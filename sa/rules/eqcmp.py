"""EQ = CMP: rtosc_arg_vals_eq_single and rtosc_arg_vals_cmp_single, evaluated on pairs of values of one type, agree -
the equality test says "equal" exactly when the three-way comparison returns 0 - and the comparison orders as the
documentation says: integers numerically, strings lexicographically, blobs bytewise with a proper prefix first.

Values are records at two addresses; `p->type`, `p->val.i`, `p->val.h`, `p->val.s`, `p->val.b.len`, `p->val.b.data` are read
from the model (through the parameter or a local copy of it); strings and blob bytes live in a byte memory, so two
blobs may share their data pointer and differ in length (prefixes of one buffer), or hold equal bytes at different
addresses; strcmp / memcmp work on that memory.
"""
from .. import astlib as A
from .. import fdeval as FD

L, R = 0x1000, 0x2000
DATA = 0x10000


def _pairs():
    """(name, lhs, rhs, expected sign of cmp) - a value is (type, fields); blob data / strings are (address, bytes)"""
    out = []
    for t in "icr":
        for a, b in ((3, 3), (3, 4), (-1, 2), (5, -5)):
            out.append(("%s %d vs %d" % (t, a, b), (t, {"val.i": a}), (t, {"val.i": b}), (a > b) - (a < b)))
    for a, b in ((7, 7), (2 ** 40, 3), (-2 ** 40, 1)):
        out.append(("h %d vs %d" % (a, b), ("h", {"val.h": a}), ("h", {"val.h": b}), (a > b) - (a < b)))
    S = {"abc": 0, "abd": 16, "ab": 32, "": 48, "abc'": 64}
    smem = {}
    for s_, off in S.items():
        key = s_.rstrip("'")
        for i, ch in enumerate(key.encode() + b"\0"):
            smem[DATA + off + i] = ch
    for a, b in (("abc", "abc'"), ("abc", "abd"), ("ab", "abc"), ("abc", "ab"), ("", "ab"), ("abc", "abc")):
        ka, kb = a.rstrip("'"), b.rstrip("'")
        for t in "sS":
            out.append(("%s \"%s\" vs \"%s\"%s" % (t, ka, kb, " (two copies)" if a != b and ka == kb else ""), (t, {"val.s": DATA + S[a]}), (t, {"val.s": DATA + S[b]}), (ka > kb) - (ka < kb)))
    # blobs: buffers B1 = 01 02 03 04 at +128, B2 = 01 02 03 04 at +160 (equal bytes elsewhere), B3 = 01 02 09 04 at +192
    for i, ch in enumerate(bytes([1, 2, 3, 4])):
        smem[DATA + 128 + i] = ch
        smem[DATA + 160 + i] = ch
    for i, ch in enumerate(bytes([1, 2, 9, 4])):
        smem[DATA + 192 + i] = ch
    B1, B2, B3 = DATA + 128, DATA + 160, DATA + 192

    def blob(ptr, ln):
        return ("b", {"val.b.len": ln, "val.b.data": ptr})
    out += [("blob: the same buffer and length", blob(B1, 4), blob(B1, 4), 0),
            ("blob: a prefix of the same buffer against the whole", blob(B1, 2), blob(B1, 4), -1),
            ("blob: the whole against a prefix of the same buffer", blob(B1, 4), blob(B1, 3), 1),
            ("blob: empty against one byte of the same buffer", blob(B1, 0), blob(B1, 1), -1),
            ("blob: equal bytes in two buffers", blob(B1, 4), blob(B2, 4), 0),
            ("blob: a prefix in another buffer", blob(B2, 3), blob(B1, 4), -1),
            ("blob: differing third byte", blob(B1, 4), blob(B3, 4), -1),
            ("blob: differing third byte, shorter first", blob(B3, 3), blob(B1, 4), 1),
            ("blob: two empty blobs", blob(B1, 0), blob(B2, 0), 0)]
    return out, smem


def _eval(unit, fname, lhs, rhs, smem):
    fn = unit.function(fname)
    ps = unit.params(fn)
    if len(ps) != 3:
        raise FD.Unknown("%s: parameters (lhs, rhs, options) not recognised" % fname, fn)
    vals = {L: lhs, R: rhs}

    def field(n, ev):
        chain = []
        e = n
        while e.get("kind") == "MemberExpr" and A.kids(e):
            chain.append(e.get("name"))
            base = A.kids(e)[0]
            if e.get("isArrow"):
                p = ev.ev(base)
                if p in vals:
                    return vals[p], ".".join(reversed(chain))
                return None
            e = A.strip_casts(base)
        return None

    def deref(a, n):
        if a in smem:
            return smem[a]
        if DATA <= a < DATA + 4096:
            return 0
        raise FD.Unknown("read at %#x" % a, n)

    def hook(n, ev):
        k = n.get("kind")
        if k == "MemberExpr":
            f = field(n, ev)
            if f is not None:
                (t, fields), name = f
                if name == "type":
                    return ord(t)
                if name in fields:
                    return fields[name]
                raise FD.Unknown("member %s of a '%s' value" % (name, t), n)
            return NotImplemented
        if k == "UnaryOperator" and n.get("opcode") == "&" and A.strip_casts(A.kids(n)[0]).get("kind") == "DeclRefExpr" and \
                (A.strip_casts(A.kids(n)[0]).get("referencedDecl") or {}).get("id") not in ev.env:
            return 0x7000                       # the address of a file-level object (the default options)
        return NotImplemented

    def call(nm, v, n):
        nm = nm.replace("__builtin_", "")
        if nm == "memcmp":
            for i in range(v[2]):
                a, b = deref(v[0] + i, n), deref(v[1] + i, n)
                if a != b:
                    return 1 if a > b else -1
            return 0
        if nm in ("strcmp", "strncmp"):
            i = 0
            lim = v[2] if nm == "strncmp" else 1 << 20
            while i < lim:
                a, b = deref(v[0] + i, n), deref(v[1] + i, n)
                if a != b:
                    return 1 if a > b else -1
                if not a:
                    return 0
                i += 1
            return 0
        if nm == "strlen":
            i = 0
            while deref(v[0] + i, n):
                i += 1
            return i
        if nm in ("__assert_fail",):
            return 0
        fs = [f_ for f_ in unit.functions.get(nm, []) if unit.body(f_) is not None]
        if len(fs) == 1:
            return holder["ev"].call_function(unit, fs[0], v)
        raise FD.Unknown("call to %s" % nm, n)
    holder = {}
    ev = FD.Eval(deref=deref, node_hook=hook, call=call, max_steps=4000)
    holder["ev"] = ev
    return ev.call_function(unit, fn, [L, R, 0x7000])


def check(unit):
    pairs, smem = _pairs()
    bad = []
    for name, lhs, rhs, sign in pairs:
        eq = _eval(unit, "rtosc_arg_vals_eq_single", lhs, rhs, smem)
        cmp_ = _eval(unit, "rtosc_arg_vals_cmp_single", lhs, rhs, smem)
        csign = (cmp_ > 0) - (cmp_ < 0) if isinstance(cmp_, int) else None
        if bool(eq) != (sign == 0) or csign != sign:
            bad.append({"pair": name, "eq": eq, "cmp": cmp_, "expected": {"eq": int(sign == 0), "cmp_sign": sign}})
    return bad, len(pairs)
