"""G3b - guard dominance on -O0 IR for (buffer,len) writers (R02.1/R02.2, R08.1).

A *write through buffer* is a store whose address, or a call one of whose pointer
arguments, is derived (load of the parameter's stack slot, GEP, bitcast, copies
into other slots) from the destination parameter.  Every such write must be
dominated by the *fits* edge of a comparison between the capacity parameter and
a pre-computed total whose truth table over (total<len, total==len, total>len)
is exact; the only write allowed on the *does-not-fit* edge is
memset(buffer, 0, len), followed by `return 0`.
"""
import re

from ..facts import AnalysisBroken

_RE_ICMP = re.compile(r'^icmp (\w+) (\S+) (\S+), (\S+?)(?:,|$)')
_RE_STORE = re.compile(r'^store (?:atomic )?(?:volatile )?(.+?) (\S+), (.+?)\* (\S+?)(?:,| seq_cst| release|$)')
_RE_LOAD = re.compile(r'^load (?:atomic )?(?:volatile )?(.+?), (.+?)\* (\S+?)(?:,| seq_cst| acquire|$)')


def parse_store(inst):
    """-> (value, pointer) operand names"""
    t = inst.text.split(", !dbg")[0]
    # store <ty> <val>, <ty>* <ptr>[, align N]
    m = re.match(r'^store (?:atomic )?(?:volatile )?(.*), (.*?\*) (\S+?)(?:, align \d+)?(?: (?:seq_cst|release|monotonic|unordered))?(?:, align \d+)?$', t)
    if not m:
        return None, None
    left = m.group(1).strip()
    val = left.split()[-1]
    return val, m.group(3)


def parse_load(inst):
    t = inst.text.split(", !dbg")[0]
    m = re.match(r'^load (?:atomic )?(?:volatile )?(.*?), (.*?\*) (\S+?)(?: (?:seq_cst|acquire|monotonic|unordered))?(?:, align \d+)?$', t)
    if not m:
        return None
    return m.group(3)


def param_slot(fn, index):
    """alloca slot the index-th parameter is spilled to at -O0."""
    p = fn.params[index] if index < len(fn.params) else None
    if p is None:
        raise AnalysisBroken("function %s has no parameter #%d" % (fn.name, index))
    names = {p}
    for i in fn.blocks[0].insts:
        if i.op in ("zext", "sext", "trunc", "bitcast") and i.ops and i.ops[0] in names:
            names.add(i.res)          # a bool parameter is widened (`zext i1 %p to i8`) before it is spilled
        if i.op == "store":
            v, ptr = parse_store(i)
            if v in names:
                return ptr
    raise AnalysisBroken("parameter #%d of %s is not spilled to a slot" % (index, fn.name))


def derived(fn, slot):
    """SSA names (and slots) holding a pointer derived from the pointer stored in `slot` (flow-insensitive)."""
    slots = {slot}
    vals = set()
    changed = True
    while changed:
        changed = False
        for i in fn.insts():
            if i.op == "load":
                p = parse_load(i)
                if p in slots and i.res not in vals:
                    vals.add(i.res)
                    changed = True
            elif i.op in ("getelementptr", "bitcast", "phi", "select", "addrspacecast"):
                if i.res not in vals and any(o in vals for o in i.ops):
                    # for GEP only the base pointer (first operand) propagates
                    if i.op == "getelementptr":
                        if i.ops and i.ops[0] in vals:
                            vals.add(i.res)
                            changed = True
                    else:
                        vals.add(i.res)
                        changed = True
            elif i.op == "store":
                v, p = parse_store(i)
                if v in vals and p not in slots and p is not None and p.startswith("%"):
                    # copy of the pointer into another local slot (char *_buffer = buffer)
                    d = fn.defs().get(p)
                    if d is not None and d.op == "alloca":
                        slots.add(p)
                        changed = True
    return vals, slots


WRITE_CALLS_DEST0 = ("llvm.memset", "llvm.memcpy", "llvm.memmove", "memset", "memcpy", "memmove", "strcpy", "strncpy", "strcat", "sprintf", "snprintf")
READ_ONLY_CALLS = ("strlen", "strcmp", "strncmp", "memcmp", "strchr", "rtosc_message_length", "rtosc_bundle_p", "rtosc_bundle_elements",
                   "rtosc_bundle_fetch", "rtosc_bundle_size")


def writes_through(fn, vals):
    out = []
    for i in fn.insts():
        if i.op == "store":
            v, p = parse_store(i)
            if p in vals:
                out.append(("store", i))
        elif i.op in ("call", "invoke") and not i.indirect and i.callee:
            if i.callee.startswith("llvm.dbg") or i.callee.startswith("llvm.lifetime"):
                continue
            targs = [k for k, a in enumerate(i.args) if a in vals]
            if not targs:
                continue
            base = i.callee
            if any(base == w or base.startswith(w + ".") for w in WRITE_CALLS_DEST0):
                if 0 in targs:
                    out.append(("call:" + base.split(".p0")[0], i))
                continue
            if base in READ_ONLY_CALLS:
                continue
            out.append(("call:" + base, i))
    return out


_TRIPLE = {  # predicate(a,b) truth over (a<b, a==b, a>b), unsigned and signed alike for this purpose
    "ult": (True, False, False), "ule": (True, True, False), "ugt": (False, False, True), "uge": (False, True, True),
    "slt": (True, False, False), "sle": (True, True, False), "sgt": (False, False, True), "sge": (False, True, True),
    "eq": (False, True, False), "ne": (True, False, True),
}


def capacity_guards(fn, len_slot):
    """icmp instructions one of whose operands is a direct load of the capacity slot, with their branch.
    -> list of dict(icmp, br, fits_succ, nofit_succ, exact, total_operand)"""
    defs = fn.defs()
    out = []
    for i in fn.insts():
        if i.op != "icmp":
            continue
        m = _RE_ICMP.match(i.text)
        if not m:
            continue
        pred, ty, a, b = m.groups()
        la = defs.get(a)
        lb = defs.get(b)
        a_is_len = la is not None and la.op == "load" and parse_load(la) == len_slot
        b_is_len = lb is not None and lb.op == "load" and parse_load(lb) == len_slot
        if a_is_len == b_is_len:
            continue
        if pred not in _TRIPLE:
            continue
        t = _TRIPLE[pred]
        if a_is_len:      # predicate(len,total): reverse to (total ? len) ordering
            t = (t[2], t[1], t[0])
            total = b
        else:
            total = a
        # t = truth over (total<len, total==len, total>len)
        # users: the conditional branch(es) on the icmp result - directly, or through a flag (`const bool fits = total <= len;`
        # stored once into a local and tested later, possibly several times)
        brs = []
        for j in i.block.insts:
            if j.op == "br" and i.res in j.ops and len(j.succs) == 2:
                brs.append(j)
        for z in fn.insts():
            if z.op == "zext" and z.ops and z.ops[0] == i.res:
                for st in fn.insts():
                    if st.op == "store" and parse_store(st)[0] == z.res:
                        slot = parse_store(st)[1]
                        if sum(1 for s2 in fn.insts() if s2.op == "store" and parse_store(s2)[1] == slot) != 1:
                            continue
                        for ld in fn.insts():
                            if ld.op == "load" and parse_load(ld) == slot:
                                for tr in fn.insts():
                                    if tr.op == "trunc" and tr.ops and tr.ops[0] == ld.res:
                                        for j in tr.block.insts:
                                            if j.op == "br" and tr.res in j.ops and len(j.succs) == 2:
                                                brs.append(j)
        for br in brs:
            tsucc, fsucc = br.succs[0], br.succs[1]
            if t == (True, True, False):
                fits, nofit, exact = tsucc, fsucc, True
            elif t == (False, False, True):
                fits, nofit, exact = fsucc, tsucc, True
            elif t == (True, False, False):
                fits, nofit, exact = tsucc, fsucc, False
            elif t == (False, True, True):
                fits, nofit, exact = fsucc, tsucc, False
            else:
                continue
            out.append({"icmp": i, "br": br, "fits": fits, "nofit": nofit, "exact": exact, "total": total})
    return out


def bounded_memset(fn, inst, bslot, lslot, group):
    """`memset(buffer, 0, c ? total : len)`: the length is a phi (or select) each of whose inputs is the capacity itself, or
    the compared total arriving from a block that the fits-edge of a guard of `group` dominates.
    -> None, or the list of (input kind, predecessor label)"""
    if inst.op != "call" or not inst.callee or not (inst.callee.startswith("llvm.memset") or inst.callee == "memset"):
        return None
    if len(inst.args) < 3 or inst.args[1] != "0":
        return None
    defs = fn.defs()
    d0 = defs.get(inst.args[0])
    if d0 is None or d0.op != "load" or parse_load(d0) != bslot:
        return None
    d = defs.get(inst.args[2])
    if d is None or d.op != "phi":
        return None
    pairs = re.findall(r'\[\s*([^,\]]+?)\s*,\s*(%[-\w.]+)\s*\]', d.text)
    if not pairs:
        return None
    tot_slots = set()
    for g in group:
        dt = defs.get(g["total"])
        if dt is not None and dt.op == "load":
            tot_slots.add(parse_load(dt))
    kinds = []
    for v, pred in pairs:
        pl = pred.lstrip("%")
        dv = defs.get(v)
        if dv is not None and dv.op == "load" and parse_load(dv) == lslot:
            kinds.append(("capacity", pl))
            continue
        if dv is not None and dv.op == "load" and parse_load(dv) in tot_slots:
            blk = fn.bmap.get(pl)
            if blk is not None and any(fn.edge_dominates(g["br"].block.label, g["fits"], blk.insts[-1]) for g in group):
                kinds.append(("total-on-fits", pl))
                continue
        return None
    return kinds


def value_origin_call(fn, val, depth=0):
    """Follow a value back through a slot (store/load) and integer casts to the call that produced it."""
    defs = fn.defs()
    d = defs.get(val)
    if d is None or depth > 6:
        return None
    if d.op in ("call", "invoke"):
        return d
    if d.op == "load":
        slot = parse_load(d)
        stores = [s for s in fn.insts() if s.op == "store" and parse_store(s)[1] == slot]
        if len(stores) == 1:
            return value_origin_call(fn, parse_store(stores[0])[0], depth + 1)
        return None
    if d.op in ("zext", "sext", "trunc", "bitcast"):
        return value_origin_call(fn, d.ops[0], depth + 1) if d.ops else None
    return None


def is_failpath_memset(fn, inst, buf_vals, len_slot):
    if inst.op != "call" or not inst.callee or not (inst.callee.startswith("llvm.memset") or inst.callee == "memset"):
        return False
    if len(inst.args) < 3 or inst.args[0] not in buf_vals:
        return False
    if inst.args[1] != "0":
        return False
    d = fn.defs().get(inst.args[2])
    return d is not None and d.op == "load" and parse_load(d) == len_slot


def whole_capacity_memset(fn, inst, bslot, lslot):
    """`memset(buffer, 0, len)` on the unmodified parameters: args are direct loads of the two parameter slots and no
    later store into either slot can reach the call.  Such a write is within the capacity whatever the message needs."""
    if inst.op != "call" or not inst.callee or not (inst.callee.startswith("llvm.memset") or inst.callee == "memset"):
        return False
    if len(inst.args) < 3 or inst.args[1] != "0":
        return False
    defs = fn.defs()
    d0, d2 = defs.get(inst.args[0]), defs.get(inst.args[2])
    if d0 is None or d0.op != "load" or parse_load(d0) != bslot:
        return False
    if d2 is None or d2.op != "load" or parse_load(d2) != lslot:
        return False
    for s in fn.insts():
        if s.op == "store" and parse_store(s)[1] in (bslot, lslot) and parse_store(s)[0] not in fn.params:
            if fn.reaches(s, inst):
                return False
    return True


def returns_constant_on(fn, start_label, const="0"):
    """Every path from block start_label to a ret passes a store of `const` into the slot the ret loads
    (the -O0 return-value slot), and no other store to that slot follows on the path."""
    rets = [i for i in fn.insts() if i.op == "ret"]
    if not rets:
        return False
    ok_all = True
    for r in rets:
        if not r.ops:
            return False
        d = fn.defs().get(r.ops[0])
        if d is None or d.op != "load":
            # ret of a non-slot value: only acceptable when unreachable from start
            if r.block.label in fn.reachable_blocks(start_label) or r.block.label == start_label:
                return False
            continue
        slot = parse_load(d)
        # stores into the slot inside the region reachable from start
        reach = fn.reachable_blocks(start_label)
        if r.block.label not in reach:
            continue
        st = [s for s in fn.insts() if s.op == "store" and parse_store(s)[1] == slot and s.block.label in reach]
        if not st:
            return False
        region = set(reach) | {start_label}
        for s in st:
            v = parse_store(s)[0]
            if v == const:
                continue
            # `return c ? f() : 0`: the stored value is a phi; only the inputs arriving from the region count
            dv = fn.defs().get(v)
            for _ in range(4):
                if dv is not None and dv.op in ("zext", "sext", "trunc", "bitcast") and dv.ops:
                    dv = fn.defs().get(dv.ops[0])
            if dv is not None and dv.op == "phi":
                pairs = re.findall(r'\[\s*([^,\]]+?)\s*,\s*(%[-\w.]+)\s*\]', dv.text)
                inside = [val for val, pred in pairs if pred.lstrip("%") in region]
                if pairs and inside and all(val.strip() == const for val in inside):
                    continue
            ok_all = False
    return ok_all
