"""CANONICALISE: rtosc::canonicalize_arg_vals, evaluated on small argument-value lists, turns every option symbol whose
port signature asks for an integer into the number enum_key gives it - the single value of a scalar default as well as
*every* element of an array default - and reports what it could not convert.

The values live in slots at BASE + 24*k (type, val.s as a symbol token, val.i); an array is a header slot followed by its
elements.  rtosc_av_arr_len answers from the header, rtosc_av_arr_type_set is recorded, enum_key answers from a table
(unknown symbol: INT_MIN), the port signature is a byte string.  Nothing of the function's spelling is matched.
"""
from .. import astlib as A
from .. import fdeval as FD

BASE = 1 << 20
SLOT = 24
SIG = 1 << 16
INT_MIN = -2 ** 31
SYMBOLS = {"lo": 0, "mid": 1, "hi": 2}

# (name, values, signature, expected values afterwards, expected return, expected array element type or None)
# a value is ("S", symbol) / ("i", int); an array is ("a", [elements])
PROBES = [
    ("scalar symbol", [("S", "mid")], "::i:c:S", [("i", 1)], 0),
    ("scalar int", [("i", 5)], "::i:c:S", [("i", 5)], 0),
    ("number for a char port", [("i", 64)], "::c", [("c", 64)], 0),
    ("char for a char port", [("c", 65)], "::c", [("c", 65)], 0),
    ("number for a char port that also takes an int", [("i", 64)], "::i:c", [("i", 64)], 0),
    ("symbol where the signature takes a symbol", [("S", "lo")], ":S", [("S", "lo")], 0),
    ("two values", [("S", "hi"), ("i", 7)], ":ii", [("i", 2), ("i", 7)], 0),
    ("more values than the signature", [("i", 1), ("S", "lo")], ":i", [("i", 1), ("S", "lo")], 1),
    ("unknown symbol", [("S", "zz")], "::i:c:S", [("S", "zz")], 1),
    ("array of one symbol", [("a", [("S", "hi")])], "::i:c:S", [("a", [("i", 2)])], 0),
    ("array of three symbols", [("a", [("S", "lo"), ("S", "mid"), ("S", "lo")])], "::i:c:S", [("a", [("i", 0), ("i", 1), ("i", 0)])], 0),
    ("array of two symbols, bracketed signature", [("a", [("S", "mid"), ("S", "hi")])], ":[i]", [("a", [("i", 1), ("i", 2)])], 0),
    ("array with an unknown symbol", [("a", [("S", "lo"), ("S", "zz")])], "::i:c:S", [("a", [("i", 0), ("S", "zz")])], 1),
]


def _flatten(values):
    slots = []
    for v in values:
        if v[0] == "a":
            slots.append({"type": ord("a"), "len": len(v[1]), "arrtype": ord(v[1][0][0]) if v[1] else 0})
            for e in v[1]:
                slots.append({"type": ord(e[0]), "v": e[1]})
        else:
            slots.append({"type": ord(v[0]), "v": v[1]})
    return slots


def run_probe(unit, values, sig):
    """-> (slots afterwards, returned value)"""
    fn = unit.function("canonicalize_arg_vals")
    ps = unit.params(fn)
    roles = {}
    for p in ps:
        t = (A.qtype(p) or "").replace(" ", "")
        if "rtosc_arg_val_t*" in t:
            roles["av"] = p
        elif t in ("size_t", "unsignedlong", "int", "unsigned"):
            roles["n"] = p
        elif "char" in t and "*" in t:
            roles["sig"] = p
        elif "MetaContainer" in t:
            roles["meta"] = p
    if set(roles) != {"av", "n", "sig", "meta"}:
        raise FD.Unknown("canonicalize_arg_vals: parameters (values, count, signature, metadata) not recognised", fn)
    slots = _flatten(values)

    def slot(addr, n):
        k, rem = divmod(addr - BASE, SLOT) if isinstance(addr, int) else (None, 1)
        if rem or k is None or not 0 <= k < len(slots):
            raise FD.Unknown("value slot at %r (of %d)" % (addr, len(slots)), n)
        return slots[k]

    def address(e, ev):
        """address of the rtosc_arg_val_t an expression designates (`av->`, `av[-1].`, `(*av).`)"""
        e = A.strip_casts(e)
        if e.get("kind") == "ArraySubscriptExpr":
            return ev.ev(A.kids(e)[0]) + SLOT * ev.ev(A.kids(e)[1])
        if e.get("kind") == "UnaryOperator" and e.get("opcode") == "*":
            return ev.ev(A.kids(e)[0])
        raise FD.Unknown("value designator %s" % e.get("kind"), e)

    def field(n, ev):
        """-> (slot, field name) for a member access on a value, or None"""
        if n.get("kind") != "MemberExpr" or not A.kids(n):
            return None
        chain = []
        e = n
        while e.get("kind") == "MemberExpr" and A.kids(e):
            chain.append((e.get("name"), e.get("isArrow")))
            base = A.kids(e)[0]
            if "rtosc_arg_val_t" in (A.qtype(A.strip_casts(base)) or "") or "rtosc_arg_val_t" in (A.qtype(base) or ""):
                addr = ev.ev(base) if e.get("isArrow") else address(base, ev)
                names = [c[0] for c in reversed(chain)]
                return slot(addr, n), ".".join(names)
            e = A.strip_casts(base)
        return None

    def read(sl, name, n):
        if name == "type":
            return sl["type"]
        if name == "val.s":
            if sl["type"] not in (ord("S"), ord("s")):
                raise FD.Unknown("string member of a non-string value", n)
            return ("sym", sl["v"])
        if name == "val.i":
            return sl["v"] if isinstance(sl.get("v"), int) else 0
        raise FD.Unknown("member %s of a value" % name, n)

    def hook(n, ev):
        k = n.get("kind")
        ks = A.kids(n)
        if k in ("ExprWithCleanups", "MaterializeTemporaryExpr", "CXXBindTemporaryExpr") and ks:
            return ev.ev(ks[0])
        if k == "MemberExpr":
            f = field(n, ev)
            if f is not None:
                return read(f[0], f[1], n)
            return NotImplemented
        if k == "BinaryOperator" and n.get("opcode") == "=":
            l = A.strip_casts(ks[0])
            if l.get("kind") == "MemberExpr":
                f = field(l, ev)
                if f is not None:
                    v = ev.ev(ks[1])
                    if f[1] == "type":
                        f[0]["type"] = v
                    elif f[1] == "val.i":
                        f[0]["v"] = v
                    else:
                        raise FD.Unknown("store to member %s" % f[1], n)
                    return v
            return NotImplemented
        if k == "CallExpr":
            nm = A.callee_name(n)
            if nm == "enum_key":
                s = ev.ev(ks[2])
                if not (isinstance(s, tuple) and s[0] == "sym"):
                    raise FD.Unknown("enum_key of %r" % (s,), n)
                return SYMBOLS.get(s[1], INT_MIN)
            if nm == "rtosc_av_arr_len":
                return slot(ev.ev(ks[1]), n).get("len", 0)
            if nm == "rtosc_av_arr_type":
                return slot(ev.ev(ks[1]), n).get("arrtype", 0)
            if nm == "rtosc_av_arr_type_set":
                slot(ev.ev(ks[1]), n)["arrtype"] = ev.ev(ks[2])
                return 0
            if nm in ("min", "lowest", "max") and len(ks) == 1 and (A.callee_decl(n) or {}).get("kind") == "CXXMethodDecl" and \
                    (A.qtype(ks[0]) or "").replace(" ", "").startswith("int(*)()"):
                return 2 ** 31 - 1 if nm == "max" else INT_MIN
            if nm in ("__assert_fail",):
                return 0
            if nm in ("strchr", "__builtin_strchr") and len(ks) == 3:
                a, c = ev.ev(ks[1]), ev.ev(ks[2]) & 0xff
                if isinstance(a, int) and SIG <= a <= SIG + len(sig):
                    i = sig.find(chr(c), a - SIG) if c else len(sig)
                    return SIG + i if i >= 0 else 0
                raise FD.Unknown("strchr of %r" % (a,), n)
            if nm in ("strspn", "strcspn", "__builtin_strspn", "__builtin_strcspn") and len(ks) == 3:
                a, st = ev.ev(ks[1]), ev.ev(ks[2])
                if isinstance(a, int) and SIG <= a <= SIG + len(sig) and isinstance(st, str):
                    i = a - SIG
                    while i < len(sig) and ((sig[i] in st) == ("cspn" not in nm)):
                        i += 1
                    return i - (a - SIG)
                raise FD.Unknown("%s of %r, %r" % (nm, a, st), n)
            if nm in ("strlen", "__builtin_strlen") and len(ks) == 2:
                a = ev.ev(ks[1])
                if isinstance(a, int) and SIG <= a <= SIG + len(sig):
                    return len(sig) - (a - SIG)
                raise FD.Unknown("strlen of %r" % (a,), n)
            if nm in ("fprintf", "printf"):
                return 0
            fs_ = [f_ for q_, fl_ in unit.functions.items() if q_.split("::")[-1] == (nm or "") for f_ in fl_ if unit.body(f_) is not None and f_ is not fn]
            if len(fs_) == 1 and len(unit.params(fs_[0])) == len(ks) - 1:
                # a helper of the unit (the conversion of one value): evaluated in place
                return ev.call_function(unit, fs_[0], [ev.ev(a_) for a_ in ks[1:]])
            raise FD.Unknown("call to %s" % nm, n)
        if k == "StringLiteral":
            return A.string_literal(n)
        if k == "ImplicitCastExpr" and n.get("castKind") == "ArrayToPointerDecay" and ks and A.string_literal(ks[0]) is not None:
            return A.string_literal(ks[0])
        if k == "DeclRefExpr" and (n.get("referencedDecl") or {}).get("id") == roles["meta"]["id"]:
            return ("meta",)
        if k in ("CXXConstructExpr", "CXXTemporaryObjectExpr") and "MetaContainer" in (A.qtype(n) or ""):
            return ("meta",)
        return NotImplemented

    def deref(addr, n):
        if SIG <= addr <= SIG + len(sig) + 1:
            return ord(sig[addr - SIG]) if addr - SIG < len(sig) else 0
        raise FD.Unknown("read at %#x" % addr, n)
    env = {roles["av"]["id"]: BASE, roles["n"]["id"]: len(slots), roles["sig"]["id"]: SIG}
    ev = FD.Eval(env=env, deref=deref, node_hook=hook, max_steps=4000)
    try:
        ev.run(unit.body(fn))
        rv = None
    except FD._Return as r:
        rv = r.v
    return slots, rv


def check(unit):
    """-> (mismatches, number of probes)"""
    bad = []
    for name, values, sig, want, wret in PROBES:
        slots, rv = run_probe(unit, values, sig)
        wslots = _flatten(want)
        got = [(chr(s["type"]), s.get("v")) if s["type"] != ord("a") else ("a", s["len"], chr(s["arrtype"]) if s["arrtype"] else "") for s in slots]
        exp = []
        for s in wslots:
            exp.append((chr(s["type"]), s.get("v")) if s["type"] != ord("a") else ("a", s["len"], None))
        # the array header's element type must be the type of its (converted) elements when they agree
        ok = rv == wret and len(got) == len(exp)
        if ok:
            for g, e in zip(got, exp):
                if e[0] == "a":
                    ok = ok and g[0] == "a" and g[1] == e[1]
                else:
                    ok = ok and g == e
            for k, e in enumerate(exp):
                if e[0] == "a" and e[1]:
                    elem_types = {exp[k + 1 + j][0] for j in range(e[1])}
                    if len(elem_types) == 1 and got[k][2] != elem_types.pop():
                        ok = False
        if not ok:
            bad.append({"probe": name, "signature": sig, "values": [list(v) if v[0] != "a" else ["a", [list(x) for x in v[1]]] for v in values],
                        "afterwards": [list(g) for g in got], "returns": rv, "expected": [list(e) for e in exp], "expected_return": wret})
    return bad, len(PROBES)
