"""DEPENDENCY SCAN: scan_deps (savefile.cpp), interpreted on small port trees, records for a message exactly the edges
"this port must be applied before that message" which the metadata of the message's port and of its parent directories
spell - and comes to an end.

The function is evaluated on the AST with a model of what it touches:
  std::string            a Python str (find, find_last_of, resize, append, compare, size, empty, c_str, [], ==, !=, npos)
  Ports::apropos(path)   the port of the model tree at that path (with or without a trailing '/'), NULL otherwise
  port->meta()[key]      the address of the value in a flat byte memory (value, NUL, then the next key), NULL if absent
  message_map / message_v  find / end / at / data / std::distance / pointer difference answer with message indices;
                         `...->dependees.push_back(i)` is recorded as the edge (message waited for, waiting message i)
  the lambda / helper that makes a path absolute, and scan_deps itself, are evaluated in place (recursion depth bounded).
Nothing of the function's spelling is matched; what cannot be modelled is "no verdict".
"""
from .. import astlib as A
from .. import fdeval as FD

NPOS = 2 ** 64 - 1
VAL = 1 << 22
MAXDEPTH = 60
PASS = ("ExprWithCleanups", "MaterializeTemporaryExpr", "CXXBindTemporaryExpr", "CXXFunctionalCastExpr", "CXXStaticCastExpr", "CStyleCastExpr", "ParenExpr")


class NoEnd(Exception):
    pass


class Tree:
    """ports: {path without trailing '/': {key: value}}; directories are the paths that have children"""
    def __init__(self, ports):
        self.ports = {p.rstrip("/"): dict(m) for p, m in ports.items()}
        self.mem = bytearray()
        self.addr = {}
        for p, m in sorted(self.ports.items()):
            for k, v in sorted(m.items()):
                self.addr[(p, k)] = VAL + len(self.mem)
                self.mem += v.encode() + b"\0" + b"next key\0\0"

    def apropos(self, path):
        p = path.split(":")[0].rstrip("/")
        return ("port", p) if p in self.ports else 0

    def meta(self, port, key):
        return self.addr.get((port, key), 0)

    def byte(self, a, n):
        k = a - VAL
        if 0 <= k < len(self.mem):
            return self.mem[k]
        raise FD.Unknown("read outside the metadata values (%#x)" % a, n)

    def cstr(self, a, n):
        out = []
        while True:
            c = self.byte(a + len(out), n)
            if not c:
                return bytes(out).decode()
            out.append(c)


def reference_edges(tree, messages, k):
    """edges (waited-for message index, k) the metadata spells for message k, written down from the documentation:
    the message's port and every parent directory may be enabled by / depend on / take its default from other ports,
    named relative to the level at which the annotated port stands; a named port without a line in the file passes
    its own dependencies on."""
    KEYS = ("enabled by", "depends", "default depends")
    index = {m: i for i, m in enumerate(messages)}
    out = set()
    seen = set()

    def levels(path):
        parts = path.strip("/").split("/")
        for n in range(len(parts), 0, -1):
            yield "/" + "/".join(parts[:n])

    def scan(path):
        for lv in levels(path):
            if lv in seen:
                continue
            seen.add(lv)
            meta = tree.ports.get(lv)
            if meta is None:
                continue
            base = lv.rsplit("/", 1)[0] + "/"
            for key in KEYS:
                for entry in [e for e in meta.get(key, "").split(",") if e]:
                    dep = base + entry
                    if dep in index:
                        if index[dep] != k:
                            out.add((index[dep], k))
                    else:
                        scan(dep)
    scan(messages[k])
    return out


def run_scan(unit, tree, messages, k):
    """scan_deps(orig = messages[k], cur = messages[k], ports, message_map, message_v) -> set of edges; raises NoEnd"""
    fn = unit.function("scan_deps")
    ps = unit.params(fn)
    index = {m: i for i, m in enumerate(messages)}
    edges = []
    depth = {"n": 0}
    holder = {}

    def is_string_type(t):
        t = (t or "").replace("const ", "").strip()
        while t.endswith("&") or t.endswith(" "):
            t = t[:-1]
        return t in ("std::string", "string") or t.startswith("std::basic_string<char") or t.startswith("std::__cxx11::basic_string<char") or t.startswith("basic_string<char")

    def as_str(v, n):
        if isinstance(v, str):
            return v
        if isinstance(v, int) and v >= VAL:
            return tree.cstr(v, n)
        raise FD.Unknown("not a string: %r" % (v,), n)

    def obj_id(e):
        e = A.strip_casts(e)
        while e.get("kind") in PASS and A.kids(e):
            e = A.strip_casts(A.kids(e)[0])
        if e.get("kind") == "DeclRefExpr":
            return (e.get("referencedDecl") or {}).get("id")
        return None

    def string_method(nm, obj, args, n, ev):
        s = ev.ev(obj)
        if not isinstance(s, str):
            raise FD.Unknown("%s on %r" % (nm, s), n)
        if nm in ("size", "length"):
            return len(s)
        if nm == "empty":
            return int(not s)
        if nm in ("c_str", "data"):
            return s
        if nm in ("find", "find_first_of", "find_last_of", "rfind"):
            what = args[0]
            what = chr(what) if isinstance(what, int) and what < VAL else as_str(what, n)
            pos = args[1] if len(args) > 1 and isinstance(args[1], int) else (NPOS if nm in ("find_last_of", "rfind") else 0)
            if nm == "find":
                i = s.find(what, pos)
            elif nm == "rfind":
                i = s.rfind(what, 0, None if pos == NPOS else pos + len(what))
            elif nm == "find_first_of":
                hits = [j for j in range(min(pos, len(s)), len(s)) if s[j] in what]
                i = hits[0] if hits else -1
            else:
                hi = len(s) - 1 if pos == NPOS else min(pos, len(s) - 1)
                hits = [j for j in range(hi, -1, -1) if s[j] in what]
                i = hits[0] if hits else -1
            return NPOS if i < 0 else i
        if nm == "compare":
            if len(args) == 3:
                a, b = s[args[0]:args[0] + args[1]], as_str(args[2], n)
            elif len(args) == 1:
                a, b = s, as_str(args[0], n)
            else:
                raise FD.Unknown("compare with %d arguments" % len(args), n)
            return 0 if a == b else (1 if a > b else -1)
        if nm == "substr":
            a0 = args[0] if args else 0
            return s[a0:] if len(args) < 2 or args[1] == NPOS else s[a0:a0 + args[1]]
        if nm in ("back", "front"):
            if not s:
                raise FD.Unknown("%s of an empty string" % nm, n)
            return ord(s[-1] if nm == "back" else s[0])
        # mutators: the object must be a variable
        oid = obj_id(obj)
        if oid is None:
            raise FD.Unknown("%s on a temporary" % nm, n)
        if nm == "resize":
            new = s[:args[0]] if args[0] <= len(s) else s + "\0" * (args[0] - len(s))
        elif nm in ("append", "operator+="):
            a0 = args[0]
            new = s + (chr(a0) if isinstance(a0, int) and a0 < VAL else as_str(a0, n))
        elif nm == "push_back":
            new = s + chr(args[0])
        elif nm == "pop_back":
            new = s[:-1]
        elif nm == "clear":
            new = ""
        elif nm == "erase" and len(args) >= 1:
            new = s[:args[0]] if len(args) == 1 or args[1] == NPOS else s[:args[0]] + s[args[0] + args[1]:]
        elif nm == "assign":
            new = as_str(args[0], n)
        else:
            raise FD.Unknown("std::string::%s" % nm, n)
        ev.env[oid] = new
        return new

    def args_of(n, ev, skip):
        out = []
        for a in A.kids(n)[skip:]:
            if a.get("kind") == "CXXDefaultArgExpr":
                continue
            out.append(ev.ev(a))
        return out

    def call_unit(f, vals, n, ev):
        depth["n"] += 1
        if depth["n"] > MAXDEPTH:
            raise NoEnd()
        try:
            return ev.call_function(unit, f, vals)
        finally:
            depth["n"] -= 1

    def full_args(f, n, ev, skip):
        """argument values of a call, default arguments evaluated from the parameter's initialiser"""
        vals = []
        ks = A.kids(n)[skip:]
        params = unit.params(f)
        for i, p in enumerate(params):
            a = ks[i] if i < len(ks) else None
            if a is None or a.get("kind") == "CXXDefaultArgExpr":
                init = [c for c in A.kids(p) if c.get("kind") not in ("ParmVarDecl",)]
                if not init:
                    raise FD.Unknown("default argument of %s" % p.get("name"), n)
                vals.append(ev.ev(init[-1]))
            else:
                vals.append(ev.ev(a))
        return vals

    def hook(n, ev):
        k = n.get("kind")
        ks = A.kids(n)
        if k in PASS and ks:
            return ev.ev(ks[-1])
        if k == "StringLiteral":
            return A.string_literal(n)
        if k == "ImplicitCastExpr" and n.get("castKind") == "ArrayToPointerDecay" and ks and A.string_literal(ks[0]) is not None:
            return A.string_literal(ks[0])
        if k in ("CXXConstructExpr", "CXXTemporaryObjectExpr") and is_string_type(A.qtype(n)):
            real = [a for a in ks if a.get("kind") != "CXXDefaultArgExpr"]
            if not real:
                return ""
            if len(real) == 1:
                return as_str(ev.ev(real[0]), n)
            vals_ = [ev.ev(a) for a in real]
            if len(real) in (2, 3) and isinstance(vals_[0], str) and is_string_type(A.qtype(A.strip_casts(real[0]))) and all(isinstance(v_, int) for v_ in vals_[1:]):
                # string(other, pos[, count])
                return vals_[0][vals_[1]:] if len(real) == 2 or vals_[2] == NPOS else vals_[0][vals_[1]:vals_[1] + vals_[2]]
            if len(real) == 2 and isinstance(vals_[1], int) and not is_string_type(A.qtype(A.strip_casts(real[0]))):
                # string(const char*, count) / string(count, char)
                if isinstance(vals_[0], int) and vals_[0] < VAL:
                    return chr(vals_[1]) * vals_[0]
                return as_str(vals_[0], n)[:vals_[1]]
            raise FD.Unknown("std::string constructed from %d arguments" % len(real), n)
        if k == "DeclRefExpr":
            rd = n.get("referencedDecl") or {}
            if rd.get("name") == "npos":
                return NPOS
            if rd.get("id") in ev.env:
                return NotImplemented
            if rd.get("id") == roles.get("ports"):
                return ("ports",)
            if rd.get("id") == roles.get("map"):
                return ("map",)
            if rd.get("id") == roles.get("vec"):
                return ("vec",)
            d = unit.by_id.get(rd.get("id"))
            if d is not None and d.get("kind") == "VarDecl" and A.kids(d) and A.kids(d)[-1].get("kind") == "LambdaExpr":
                return ("lambda", d["id"])
            return NotImplemented
        if k == "CXXMemberCallExpr":
            cal = A.strip_casts(ks[0])
            nm = cal.get("name") or ""
            obj = A.kids(cal)[0] if A.kids(cal) else None
            ot = (A.qtype(A.strip_casts(obj)) or "") if obj is not None else ""
            if is_string_type(ot) or is_string_type(A.qtype(obj) if obj is not None else ""):
                return string_method(nm, obj, args_of(n, ev, 1), n, ev)
            base = ev.ev(obj)
            if nm == "apropos":
                return tree.apropos(as_str(ev.ev(ks[1]), n))
            if nm == "meta":
                if isinstance(base, tuple) and base[0] == "port":
                    return ("meta", base[1])
                raise FD.Unknown("meta() of %r" % (base,), n)
            if base == ("map",):
                if nm == "find":
                    key = as_str(ev.ev(ks[1]), n)
                    return ("mapit", key if key in index else None)
                if nm == "end":
                    return ("mapit", None)
                if nm == "at":
                    key = as_str(ev.ev(ks[1]), n)
                    if key not in index:
                        raise FD.Unknown("message_map.at(%r) throws" % key, n)
                    return ("msgptr", index[key])
                if nm == "count":
                    return int(as_str(ev.ev(ks[1]), n) in index)
            if base == ("vec",):
                if nm == "data":
                    return ("msgptr", 0)
                if nm == "size":
                    return len(messages)
            if isinstance(base, tuple) and base[0] == "deplist" and nm in ("push_back", "emplace_back"):
                v = ev.ev(ks[1])
                if not isinstance(v, int):
                    raise FD.Unknown("dependee %r" % (v,), n)
                edges.append((base[1], v))
                return 0
            raise FD.Unknown("member call %s on %r" % (nm, base), n)
        if k == "MemberExpr" and ks:
            nm = n.get("name")
            if nm in ("second", "first", "dependees", "portname"):
                base = ev.ev(ks[0])
                if isinstance(base, tuple) and base[0] == "mapit":
                    if base[1] is None:
                        raise FD.Unknown("dereference of end()", n)
                    return ("msgptr", index[base[1]]) if nm == "second" else base[1]
                if isinstance(base, tuple) and base[0] == "msgptr":
                    if nm == "dependees":
                        return ("deplist", base[1])
                    if nm == "portname":
                        return messages[base[1]]
                raise FD.Unknown("member %s of %r" % (nm, base), n)
            return NotImplemented
        if k == "CXXOperatorCallExpr":
            rd = (A.strip_casts(ks[0]).get("referencedDecl") or {})
            op = rd.get("name") or A.src(ks[0])
            if op == "operator->" or op == "operator*":
                return ev.ev(ks[1])
            if op == "operator()":
                tgt = ev.ev(ks[1])
                f = unit.by_id.get(rd.get("id"))
                if f is None or unit.body(f) is None:
                    raise FD.Unknown("call of %r" % (tgt,), n)
                return call_unit(f, full_args(f, n, ev, 2), n, ev)
            if op in ("operator==", "operator!="):
                a, b = ev.ev(ks[1]), ev.ev(ks[2])
                if isinstance(a, tuple) or isinstance(b, tuple):
                    eq = a == b
                else:
                    eq = as_str(a, n) == as_str(b, n)
                return int(eq == (op == "operator=="))
            if op == "operator[]":
                a = ev.ev(ks[1])
                if isinstance(a, tuple) and a[0] == "meta":
                    return tree.meta(a[1], as_str(ev.ev(ks[2]), n))
                if isinstance(a, str):
                    i = ev.ev(ks[2])
                    return ord(a[i]) if 0 <= i < len(a) else 0
                if a == ("map",):
                    key = as_str(ev.ev(ks[2]), n)
                    if key in index:
                        return ("msgptr", index[key])
                raise FD.Unknown("operator[] on %r" % (a,), n)
            if op in ("operator+=",):
                return string_method("operator+=", ks[1], [ev.ev(ks[2])], n, ev)
            if op == "operator+":
                a, b = ev.ev(ks[1]), ev.ev(ks[2])
                return (chr(a) if isinstance(a, int) and a < VAL else as_str(a, n)) + (chr(b) if isinstance(b, int) and b < VAL else as_str(b, n))
            if op == "operator=":
                oid = obj_id(ks[1])
                v = ev.ev(ks[2])
                if oid is None:
                    raise FD.Unknown("assignment to a temporary", n)
                ev.env[oid] = as_str(v, n) if is_string_type(A.qtype(ks[1])) else v
                return ev.env[oid]
            if op == "operator-":
                a, b = ev.ev(ks[1]), ev.ev(ks[2])
                if isinstance(a, tuple) and isinstance(b, tuple) and a[0] == b[0] == "msgptr":
                    return a[1] - b[1]
            raise FD.Unknown("operator call %s" % op, n)
        if k == "BinaryOperator" and n.get("opcode") in ("-", "==", "!="):
            # pointer difference / comparison of message pointers and map iterators
            if any("message_t" in (A.qtype(x) or "") or "iterator" in (A.qtype(x) or "") for x in ks):
                a, b = ev.ev(ks[0]), ev.ev(ks[1])
                if isinstance(a, tuple) and isinstance(b, tuple):
                    if n.get("opcode") == "-" and a[0] == b[0] == "msgptr":
                        return a[1] - b[1]
                    if n.get("opcode") in ("==", "!="):
                        return int((a == b) == (n.get("opcode") == "=="))
                raise FD.Unknown("pointer arithmetic on %r, %r" % (a, b), n)
            return NotImplemented
        if k == "CallExpr":
            nm = A.callee_name(n)
            if nm == "distance":
                a, b = ev.ev(ks[1]), ev.ev(ks[2])
                if isinstance(a, tuple) and isinstance(b, tuple) and a[0] == b[0] == "msgptr":
                    return b[1] - a[1]
                raise FD.Unknown("distance of %r, %r" % (a, b), n)
            if nm in ("strchr", "__builtin_strchr"):
                a, c = ev.ev(ks[1]), ev.ev(ks[2]) & 0xff
                if isinstance(a, int) and a >= VAL:
                    i = 0
                    while True:
                        b_ = tree.byte(a + i, n)
                        if b_ == c:
                            return a + i
                        if not b_:
                            return 0
                        i += 1
                raise FD.Unknown("strchr of %r" % (a,), n)
            if nm in ("strlen", "__builtin_strlen"):
                return len(as_str(ev.ev(ks[1]), n))
            if nm in ("strcmp",):
                a, b = as_str(ev.ev(ks[1]), n), as_str(ev.ev(ks[2]), n)
                return 0 if a == b else (1 if a > b else -1)
            if nm in ("__assert_fail", "printf", "fprintf"):
                return 0
            fs = [f for q, fl in unit.functions.items() if q.split("::")[-1] == (nm or "") for f in fl if unit.body(f) is not None]
            if len(fs) == 1:
                return call_unit(fs[0], full_args(fs[0], n, ev, 1), n, ev)
            raise FD.Unknown("call to %s" % nm, n)
        if k in ("GNUNullExpr", "CXXNullPtrLiteralExpr"):
            return 0
        if k == "LambdaExpr":
            return ("lambda", n.get("id"))
        return NotImplemented

    def stmt_hook(n, ev):
        if n.get("kind") == "DeclStmt":
            # `const char* keys[3] = { "enabled by", ... }`: bound through its initialiser when ranged over
            for d in A.kids(n):
                if d.get("kind") == "VarDecl" and A.kids(d) and A.kids(d)[-1].get("kind") == "LambdaExpr":
                    ev.env[d["id"]] = ("lambda", d["id"])
                    if len(A.kids(n)) == 1:
                        return True
            return None
        if n.get("kind") != "CXXForRangeStmt":
            return None
        ks = A.kids(n)
        body = ks[-1]
        decls = [d for s_ in ks for d in (A.kids(s_) if s_.get("kind") == "DeclStmt" else []) if d.get("kind") == "VarDecl"]
        loopvar = [d for d in decls if not (d.get("name") or "").startswith("__")]
        rng = [d for d in decls if (d.get("name") or "").startswith("__range")]
        if len(loopvar) != 1 or len(rng) != 1:
            raise FD.Unknown("range-for: shape", n)
        src = [y for y in A.walk(rng[0]) if y.get("kind") == "DeclRefExpr"]
        arr = unit.by_id.get((src[0].get("referencedDecl") or {}).get("id")) if len(src) == 1 else None
        if arr is None or not A.kids(arr) or A.strip_casts(A.kids(arr)[-1]).get("kind") != "InitListExpr":
            raise FD.Unknown("range-for over something else than a table with an initialiser", n)
        for el in A.kids(A.strip_casts(A.kids(arr)[-1])):
            ev.env[loopvar[0]["id"]] = ev.ev(el)
            try:
                ev.run(body)
            except FD._Break:
                break
            except FD._Continue:
                continue
        return True

    def deref(a, n):
        return tree.byte(a, n)

    roles = {}
    strs = [p for p in ps if is_string_type(A.qtype(p))]
    for p in ps:
        t = A.qtype(p) or ""
        if "Ports" in t:
            roles["ports"] = p["id"]
        elif "map<" in t:
            roles["map"] = p["id"]
        elif "vector<" in t:
            roles["vec"] = p["id"]
    if len(strs) < 2 or not {"ports", "map", "vec"} <= set(roles):
        raise FD.Unknown("scan_deps: parameters (original port, current port, ports, message map, message vector) not recognised", fn)
    env = {}
    ev = FD.Eval(env=env, deref=deref, node_hook=hook, stmt_hook=stmt_hook, max_steps=200000)
    holder["ev"] = ev
    vals = []
    for i, p in enumerate(ps):
        if p is strs[0] or p is strs[1]:
            vals.append(messages[k])
        elif is_string_type(A.qtype(p)):
            vals.append("")                      # further string parameters (the level scanned above): their default
        elif p["id"] == roles["ports"]:
            vals.append(("ports",))
        elif p["id"] == roles["map"]:
            vals.append(("map",))
        elif p["id"] == roles["vec"]:
            vals.append(("vec",))
        else:
            init = [c for c in A.kids(p)]
            if not init:
                raise FD.Unknown("scan_deps: parameter %s" % p.get("name"), fn)
            vals.append(ev.ev(init[-1]))
    import sys
    old = sys.getrecursionlimit()
    sys.setrecursionlimit(max(old, 20000))
    try:
        call_unit(fn, vals, fn, ev)
    finally:
        sys.setrecursionlimit(old)
    return set(edges)


# (name, ports, messages)
PROBES = [
    ("one dependency", {"/a": {"depends": "b,"}, "/b": {}}, ["/a", "/b"]),
    ("list of two", {"/a": {"depends": "b,c,"}, "/b": {}, "/c": {}}, ["/a", "/b", "/c"]),
    ("list of three, one absent", {"/a": {"depends": "b,c,d,"}, "/b": {}, "/c": {}, "/d": {}}, ["/d", "/a", "/b"]),
    ("default through an absent port", {"/a": {"default depends": "b"}, "/b": {"depends": "c,"}, "/c": {}}, ["/a", "/c"]),
    ("sub-tree enabled by a port inside it", {"/s": {"enabled by": "s/on"}, "/s/on": {}, "/s/p": {}}, ["/s/p", "/s/on"]),
    ("sub-tree enabled by an absent port inside it", {"/s": {"enabled by": "s/on"}, "/s/on": {}, "/s/p": {}}, ["/s/p"]),
    ("sub-tree enabled by a sibling", {"/s": {"enabled by": "en"}, "/en": {}, "/s/p": {}}, ["/s/p", "/en"]),
    ("two levels", {"/a": {"enabled by": "x"}, "/x": {}, "/a/b": {"depends": "y,"}, "/a/y": {}, "/a/b/p": {}}, ["/a/b/p", "/x", "/a/y"]),
    ("directory and port both with a list", {"/v": {"depends": "q,"}, "/q": {}, "/v/q": {}, "/v/d": {"depends": "q,"}}, ["/v/d"]),
    ("directory and port both with a list, all present", {"/v": {"depends": "q,"}, "/q": {}, "/v/q": {}, "/v/d": {"depends": "q,"}}, ["/v/d", "/q", "/v/q"]),
    ("chain through two absent ports", {"/a": {"depends": "b,"}, "/b": {"default depends": "c"}, "/c": {"enabled by": "d"}, "/d": {}}, ["/a", "/d"]),
    ("no metadata", {"/a": {}, "/b": {}}, ["/a", "/b"]),
]


def check(unit):
    """-> (mismatches, scans evaluated)"""
    bad, n = [], 0
    for name, ports, messages in PROBES:
        tree = Tree(ports)
        for k in range(len(messages)):
            n += 1
            want = reference_edges(tree, messages, k)
            try:
                got = run_scan(unit, tree, messages, k)
            except NoEnd:
                bad.append({"tree": name, "message": messages[k], "outcome": "scan_deps calls itself without end (more than %d levels)" % MAXDEPTH,
                            "ports": {p: m for p, m in ports.items() if m}})
                continue
            if got != want:
                bad.append({"tree": name, "message": messages[k], "file": messages, "ports": {p: m for p, m in ports.items() if m},
                            "waits_for": sorted(messages[a] for a, b in got), "expected": sorted(messages[a] for a, b in want)})
    return bad, n
