"""KAHN EVALUATED: the topological sort of dispatch_printed_messages - from the declaration of the in-degree table to the
end of the loop that empties the queue of ready messages - is interpreted on small dependency graphs.  The messages are
records with a `dependees` list (the indices of the messages that must come later); std::vector / std::queue objects
are Python lists (constructor (n, value), operator[], size, push_back, push, front, pop, empty, reserve; ++v[i], --v[i]);
range-for runs over them.  Afterwards `order` must hold every message exactly once and every message in front of all
its dependees.  The graphs include a message reached over two edges in a row (two messages with the same dependee
follow each other in the vector), a message listed twice by one message, chains and a diamond.
"""
from .. import astlib as A
from .. import fdeval as FD

# name, dependees per message (edges m -> d: m is dispatched before d)
GRAPHS = [
    ("no edges", [[], [], []]),
    ("chain", [[1], [2], []]),
    ("chain, file order reversed", [[], [0], [1]]),
    ("two messages in a row with the same dependee, which waits for a third", [[3], [3], [1], []]),
    ("the same, dependee in front", [[], [0], [0], [2]]),
    ("diamond", [[1, 2], [3], [3], []]),
    ("one message lists a dependee twice", [[1, 1], []]),
    ("two lists that end and begin alike", [[2, 3], [3], [], [2]]),
    ("fan-in over three messages in a row", [[3], [3], [3], []]),
]


class _Obj:
    def __init__(self, items):
        self.items = items


def _is_elem(e):
    e = A.strip_casts(e)
    return e.get("kind") == "CXXOperatorCallExpr" and (A.strip_casts(A.kids(e)[0]).get("referencedDecl") or {}).get("name") == "operator[]"


def _release_loops(unit, fn):
    """outermost loops of fn that decrement an element of a table and append to a queue / vector"""
    out = []

    def visit(n, in_loop):
        for c in A.kids(n):
            is_loop = c.get("kind") in ("WhileStmt", "ForStmt", "DoStmt", "CXXForRangeStmt")
            if is_loop and not in_loop:
                dec = any((y.get("kind") == "UnaryOperator" and y.get("opcode") == "--" and _is_elem(A.kids(y)[0])) or
                          (y.get("kind") == "CompoundAssignOperator" and y.get("opcode") == "-=" and _is_elem(A.kids(y)[0])) for y in A.walk(c))
                app = any(y.get("kind") == "CXXMemberCallExpr" and A.strip_casts(A.kids(y)[0]).get("name") in ("push", "push_back", "emplace", "emplace_back") for y in A.walk(c))
                if dec and app:
                    out.append(c)
                    continue
            visit(c, in_loop or is_loop)
    visit(unit.body(fn), False)
    return out


def _site(unit):
    """(function, release loop) of the sort: in dispatch_printed_messages itself or in a helper of the unit"""
    found = []
    for q, fns in unit.functions.items():
        for f in fns:
            if unit.body(f) is None or not (A.loc(f)[0] or "").endswith("savefile.cpp"):
                continue
            for lp in _release_loops(unit, f):
                found.append((f, lp))
    if len(found) != 1:
        raise FD.Unknown("the loop that releases the messages whose dependencies are done (decrement of an in-degree, append to the queue) was not found exactly once (%d)" % len(found), None)
    return found[0]


def evaluate(unit, graph):
    """-> the final `order` list"""
    fn, wst = _site(unit)
    body = unit.body(fn)
    blk = None
    for b_ in A.walk(body):
        if b_.get("kind") == "CompoundStmt" and any(k_ is wst for k_ in A.kids(b_)):
            blk = b_
    if blk is None:
        raise FD.Unknown("the release loop is no statement of a block", wst)
    top = A.kids(blk)
    wi = [i for i, k_ in enumerate(top) if k_ is wst][0]

    def obj_id(e):
        e = A.strip_casts(e)
        while e.get("kind") in ("MemberExpr",) and A.kids(e):
            e = A.strip_casts(A.kids(e)[0])
        return A.ref_id(e)
    vec_ids = set()
    for y in A.walk(wst):
        if y.get("kind") == "MemberExpr" and y.get("name") == "dependees":
            b = A.strip_casts(A.kids(y)[0])
            if _is_elem(b):
                vec_ids.add(A.ref_id(A.kids(b)[1]))
    if len(vec_ids) != 1:
        raise FD.Unknown("the message vector indexed in the loop was not recognised", wst)
    vec_id = list(vec_ids)[0]
    helper = vec_id in {p_["id"] for p_ in unit.params(fn)} and fn.get("name") != "dispatch_printed_messages"
    order_id = None
    start = None
    if not helper:
        order_ids = {obj_id(A.kids(A.strip_casts(A.kids(y)[0]))[0]) for y in A.walk(wst) if y.get("kind") == "CXXMemberCallExpr" and A.strip_casts(A.kids(y)[0]).get("name") == "push_back"}
        if len(order_ids) != 1:
            raise FD.Unknown("the vector the sorted order is appended to was not recognised", wst)
        order_id = list(order_ids)[0]
        used = {y["referencedDecl"]["id"] for y in A.walk(wst) if y.get("kind") == "DeclRefExpr" and (y.get("referencedDecl") or {}).get("kind") == "VarDecl"}
        for i, st in enumerate(top[:wi]):
            if st.get("kind") == "DeclStmt" and any(d.get("id") in used and d.get("id") not in (vec_id,) for d in A.kids(st)):
                start = i
                break
        if start is None:
            raise FD.Unknown("the declarations of the sort's tables were not found in front of the loop", wst)
    msgs = [_Obj({"dependees": _Obj(list(d))}) for d in graph]
    env = {vec_id: _Obj(msgs)}
    h = {}

    def container(e, ev):
        v = ev.ev(e)
        if not isinstance(v, _Obj):
            raise FD.Unknown("container expected", e)
        return v

    def hook(n, ev):
        k = n.get("kind")
        ks = A.kids(n)
        if k == "DeclRefExpr" and (n.get("referencedDecl") or {}).get("id") in ev.env and isinstance(ev.env[n["referencedDecl"]["id"]], _Obj):
            return ev.env[n["referencedDecl"]["id"]]
        if k == "CXXConstructExpr":
            t = A.qtype(n) or ""
            if "vector" in t or "queue" in t or "deque" in t:
                args = [a for a in ks if a.get("kind") != "CXXDefaultArgExpr"]
                if not args:
                    return _Obj([])
                if len(args) == 1:
                    v0 = ev.ev(args[0])
                    if isinstance(v0, _Obj):
                        return _Obj(list(v0.items))
                    return _Obj([0] * v0)
                if len(args) >= 2:
                    nn, vv = ev.ev(args[0]), ev.ev(args[1])
                    if isinstance(nn, int):
                        return _Obj([vv] * nn)
            raise FD.Unknown("constructor of %s" % t, n)
        if k == "MemberExpr" and n.get("name") == "dependees":
            base = ev.ev(ks[0])
            if isinstance(base, _Obj) and isinstance(base.items, dict):
                return base.items["dependees"]
            raise FD.Unknown("dependees of something else than a message", n)
        if k == "CXXOperatorCallExpr" and len(ks) == 3 and A.src(ks[0]).strip() in ("operator[]",) or (k == "CXXOperatorCallExpr" and len(ks) == 3 and (A.strip_casts(ks[0]).get("referencedDecl") or {}).get("name") == "operator[]"):
            c = container(ks[1], ev)
            i = ev.ev(ks[2])
            if not isinstance(i, int) or not 0 <= i < len(c.items):
                raise FD.Unknown("index %r outside a table of %d" % (i, len(c.items)), n)
            return c.items[i]
        if k in ("UnaryOperator", "CompoundAssignOperator", "BinaryOperator") and ks:
            tgt = A.strip_casts(ks[0])
            if tgt.get("kind") == "CXXOperatorCallExpr" and (A.strip_casts(A.kids(tgt)[0]).get("referencedDecl") or {}).get("name") == "operator[]" and \
                    (k != "BinaryOperator" or n.get("opcode") == "="):
                c = container(A.kids(tgt)[1], ev)
                i = ev.ev(A.kids(tgt)[2])
                if not isinstance(i, int) or not 0 <= i < len(c.items):
                    raise FD.Unknown("index %r outside a table of %d" % (i, len(c.items)), n)
                old = c.items[i]
                if k == "UnaryOperator" and n.get("opcode") in ("++", "--"):
                    new = old + (1 if n.get("opcode") == "++" else -1)
                    c.items[i] = new & ((1 << 64) - 1)
                    return old if n.get("isPostfix") else c.items[i]
                if k == "CompoundAssignOperator":
                    d = ev.ev(ks[1])
                    c.items[i] = (old + d if n.get("opcode") == "+=" else old - d) & ((1 << 64) - 1)
                    return c.items[i]
                if k == "BinaryOperator":
                    c.items[i] = ev.ev(ks[1])
                    return c.items[i]
            return NotImplemented
        if k == "CXXMemberCallExpr":
            callee = A.strip_casts(ks[0])
            nm = callee.get("name")
            c = container(A.kids(callee)[0], ev)
            args = [ev.ev(a) for a in ks[1:] if a.get("kind") != "CXXDefaultArgExpr"]
            if nm == "size":
                return len(c.items)
            if nm == "empty":
                return 0 if c.items else 1
            if nm in ("push_back", "push", "emplace_back", "emplace"):
                c.items.append(args[0])
                return 0
            if nm == "front":
                if not c.items:
                    raise FD.Unknown("front() of an empty queue", n)
                return c.items[0]
            if nm == "back":
                return c.items[-1]
            if nm == "pop":
                c.items.pop(0)
                return 0
            if nm == "pop_back":
                c.items.pop()
                return 0
            if nm in ("reserve", "shrink_to_fit"):
                return 0
            if nm == "clear":
                del c.items[:]
                return 0
            if nm == "assign" and len(args) == 2 and isinstance(args[0], int):
                c.items[:] = [args[1]] * args[0]
                return 0
            if nm == "resize" and args and isinstance(args[0], int):
                fill = args[1] if len(args) > 1 else 0
                c.items[:] = (c.items + [fill] * args[0])[:args[0]]
                return 0
            if nm in ("begin", "end", "cbegin", "cend"):
                return (nm.lstrip("c"), c)
            raise FD.Unknown("container operation %s" % nm, n)
        return NotImplemented

    def stmt_hook(n, ev):
        if n.get("kind") != "CXXForRangeStmt":
            return None
        ks = A.kids(n)
        decls = [d for s_ in ks for d in (A.kids(s_) if s_.get("kind") == "DeclStmt" else []) if d.get("kind") == "VarDecl"]
        loopvar = [d for d in decls if not (d.get("name") or "").startswith("__")]
        rng = [d for d in decls if (d.get("name") or "").startswith("__range")]
        if len(loopvar) != 1 or len(rng) != 1 or not A.kids(rng[0]):
            raise FD.Unknown("range-for: shape", n)
        c = ev.ev(A.kids(rng[0])[-1])
        if not isinstance(c, _Obj) or not isinstance(c.items, list):
            raise FD.Unknown("range-for over something else than a vector", n)
        i = 0
        while i < len(c.items):
            ev.env[loopvar[0]["id"]] = c.items[i]
            i += 1
            try:
                ev.run(ks[-1])
            except FD._Break:
                break
            except FD._Continue:
                continue
        return True

    def call(nm, vals, n):
        if nm in ("__assert_fail",):
            return 0
        if (nm or "").split("::")[-1] == "sort" and len(vals) == 2 and all(isinstance(v_, tuple) and isinstance(v_[1], _Obj) for v_ in vals) and vals[0][1] is vals[1][1]:
            vals[0][1].items.sort()
            return 0
        raise FD.Unknown("call to %s" % nm, n)
    ev = FD.Eval(env=env, node_hook=hook, stmt_hook=stmt_hook, call=call, max_steps=20000)
    h["ev"] = ev
    if helper:
        # a helper that is handed the message vector and returns the order: evaluated as a whole
        args = [env[vec_id] if p_["id"] == vec_id else (_Obj([]) if ("vector" in (A.qtype(p_) or "") or "queue" in (A.qtype(p_) or "")) else 0) for p_ in unit.params(fn)]
        o = ev.call_function(unit, fn, args)
        if not isinstance(o, _Obj):
            raise FD.Unknown("%s does not return the order" % fn.get("name"), fn)
        return list(o.items)
    # tables declared in front of the start (the order vector, typically) that the loop uses: run their declarations too
    for st in top[:start]:
        if st.get("kind") == "DeclStmt" and any(d.get("id") in used and d.get("id") != vec_id for d in A.kids(st)):
            ev.run(st)
    for st in top[start:wi + 1]:
        ev.run(st)
    o = ev.env.get(order_id)
    if not isinstance(o, _Obj):
        raise FD.Unknown("the order vector was not built", wst)
    return list(o.items)


def check(unit):
    bad = []
    for name, graph in GRAPHS:
        order = evaluate(unit, graph)
        pos = {m: i for i, m in enumerate(order)}
        ok = sorted(order) == list(range(len(graph))) and all(pos[m] < pos[d] for m, ds in enumerate(graph) for d in ds)
        if not ok:
            early = [(m, d) for m, ds in enumerate(graph) for d in ds if m in pos and d in pos and pos[m] > pos[d]]
            bad.append({"graph": name, "dependees": graph, "order": order, "dispatched_before_what_they_wait_for": [list(e) for e in early][:3]})
    return bad, len(GRAPHS)
