"""R01.4 CURSOR - loops that walk the type-tag string with a char cursor.

Within one iteration (condition, body, increment in evaluation order) every
dereference of the cursor is tagged with the cursor's offset relative to its
value at the start of the iteration.  A dereference is
   a NUL test        when it is used as a truth value (loop/if condition, !x, &&, ||)
   a classification  when it is compared with a character literal, passed to
                     has_reserved(), or copied into a local that is then compared.
Rule: if the iteration NUL-tests the cursor, every classification must be made at
an offset that was NUL-tested (the element that is classified is the element
that was tested).  Also reports the set of character literals used to classify.
"""
from .. import astlib as A


class _Tracker:
    def __init__(self, cur_id, classify_calls=("has_reserved",)):
        self.cur = cur_id
        self.off = 0
        self.diverged = False
        self.tests = []       # (offset, node)
        self.classes = []     # (offset, literal or 'call:has_reserved', node)
        self.alias = {}       # local var id -> offset of the element it holds
        self.uses = []        # (offset, callee) the element is handed to a function that does not classify brackets
        self.classify_calls = classify_calls

    def _is_cur(self, n):
        n = A.strip_casts(n)
        return n.get("kind") == "DeclRefExpr" and n["referencedDecl"]["id"] == self.cur

    def elem_offset(self, n):
        """If n (an rvalue expression) denotes an element of the cursor string, evaluate its side effects
        and return the element's offset; else return None (side effects still applied via visit)."""
        n0 = A.strip_casts(n)
        k = n0.get("kind")
        if k == "UnaryOperator" and n0.get("opcode") == "*":
            inner = A.strip_casts(A.kids(n0)[0])
            if self._is_cur(inner):
                return self.off
            if inner.get("kind") == "UnaryOperator" and inner.get("opcode") in ("++", "--") and self._is_cur(A.kids(inner)[0]):
                d = 1 if inner.get("opcode") == "++" else -1
                if inner.get("isPostfix"):
                    o = self.off
                    self.off += d
                    return o
                self.off += d
                return self.off
            if inner.get("kind") == "BinaryOperator" and inner.get("opcode") in ("+", "-") and self._is_cur(A.kids(inner)[0]):
                lit = A.int_literal(A.kids(inner)[1])
                if lit is not None:
                    return self.off + (lit if inner.get("opcode") == "+" else -lit)
            return None
        if k == "ArraySubscriptExpr" and self._is_cur(A.kids(n0)[0]):
            lit = A.int_literal(A.kids(n0)[1])
            if lit is not None:
                return self.off + lit
        if k == "DeclRefExpr" and n0["referencedDecl"]["id"] in self.alias:
            return self.alias[n0["referencedDecl"]["id"]]
        return None

    def visit(self, n, boolctx=False):
        """Evaluate expression/statement n in order, recording events."""
        if n is None or not n.get("kind"):
            return
        k = n.get("kind")
        ks = A.kids(n)
        if k in A.TRANSPARENT or k in ("ImplicitCastExpr", "CStyleCastExpr"):
            o = self.elem_offset(n) if boolctx else None
            if o is not None:
                self.tests.append((o, n))
                return
            for c in ks:
                self.visit(c, boolctx)
            return
        o = self.elem_offset(n)
        if o is not None:
            if boolctx:
                self.tests.append((o, n))
            return
        if k == "UnaryOperator":
            op = n.get("opcode")
            if op in ("++", "--") and self._is_cur(ks[0]):
                self.off += 1 if op == "++" else -1
                return
            if op == "!":
                self.visit(ks[0], True)
                return
            self.visit(ks[0])
            return
        if k == "BinaryOperator":
            op = n.get("opcode")
            if op in ("&&", "||"):
                self.visit(ks[0], True)
                # the right operand is evaluated conditionally but at the same cursor offset
                self.visit(ks[1], True)
                return
            if op in ("==", "!="):
                lo = self.elem_offset(ks[0])
                lit = A.int_literal(ks[1])
                if lo is not None and lit is not None:
                    if lit == 0:
                        self.tests.append((lo, n))
                    else:
                        self.classes.append((lo, chr(lit) if 0 < lit < 128 else lit, n))
                    return
                ro = self.elem_offset(ks[1]) if lo is None else None
                lit = A.int_literal(ks[0])
                if ro is not None and lit is not None:
                    if lit == 0:
                        self.tests.append((ro, n))
                    else:
                        self.classes.append((ro, chr(lit) if 0 < lit < 128 else lit, n))
                    return
                if lo is None:
                    self.visit(ks[0])
                    self.visit(ks[1])
                return
            if op == "=" and self._is_cur(ks[0]):
                self.visit(ks[1])
                self.diverged = True
                return
            if op == ",":
                self.visit(ks[0])
                self.visit(ks[1])
                return
            self.visit(ks[0])
            self.visit(ks[1])
            return
        if k == "CompoundAssignOperator":
            if self._is_cur(ks[0]):
                lit = A.int_literal(ks[1])
                if lit is not None and n.get("opcode") in ("+=", "-="):
                    self.off += lit if n.get("opcode") == "+=" else -lit
                else:
                    self.diverged = True
                return
            self.visit(ks[0])
            self.visit(ks[1])
            return
        if k == "ConditionalOperator":
            self.visit(ks[0], True)
            o0 = self.off
            self.visit(ks[1])
            o1 = self.off
            self.off = o0
            self.visit(ks[2])
            if self.off != o1:
                self.diverged = True
            return
        if k == "CallExpr":
            name = A.callee_name(n)
            for a in ks[1:]:
                ao = self.elem_offset(a)
                if ao is not None and name in self.classify_calls:
                    self.classes.append((ao, "call:" + name, n))
                elif ao is not None:
                    self.uses.append((ao, name, n))
                else:
                    self.visit(a)
            return
        if k == "DeclStmt":
            for d in ks:
                if d.get("kind") == "VarDecl" and A.kids(d):
                    init = A.kids(d)[-1]
                    io = self.elem_offset(init)
                    if io is not None:
                        self.alias[d["id"]] = io
                    else:
                        self.visit(init)
            return
        if k == "IfStmt":
            self.visit(ks[0], True)
            o0 = self.off
            self.visit(ks[1])
            o1 = self.off
            self.off = o0
            if len(ks) > 2:
                self.visit(ks[2])
            if self.off != o1:
                # branches advance differently: classification after the if is not tracked
                self.diverged = True
            return
        if k == "ReturnStmt":
            for c in ks:
                self.visit(c)
            return
        if k in ("WhileStmt", "ForStmt", "DoStmt"):
            # nested loop over the same cursor: not tracked
            self.diverged = True
            return
        if k == "SwitchStmt":
            o = self.elem_offset(ks[0])
            if o is not None:
                self.classes.append((o, "switch", n))
            self.diverged = True
            return
        for c in ks:
            self.visit(c)


def char_cursor_loops(unit, fn):
    """Loops in fn whose condition or body dereferences a `const char *` local/parameter that the loop advances."""
    out = []
    for lp in A.walk(unit.body(fn)):
        if lp.get("kind") not in ("WhileStmt", "ForStmt", "DoStmt"):
            continue
        # cursor candidates: char pointers incremented inside the loop
        cands = set()
        for x in A.walk(lp):
            if x.get("kind") == "UnaryOperator" and x.get("opcode") == "++":
                t = A.strip_casts(A.kids(x)[0])
                if t.get("kind") == "DeclRefExpr" and ("char" in A.qtype(t) or "uint8_t" in A.qtype(t)) and "*" in A.qtype(t):
                    cands.add(t["referencedDecl"]["id"])
        for c in cands:
            out.append((lp, c))
    return out


def analyse_loop(lp, cur_id):
    tr = _Tracker(cur_id)
    k = lp.get("kind")
    raw = lp.get("inner", [])
    if k == "WhileStmt":
        ks = A.kids(lp)
        tr.visit(ks[0], True)
        tr.visit(ks[-1])
    elif k == "DoStmt":
        ks = A.kids(lp)
        tr.visit(ks[0])
        tr.visit(ks[1], True)
    else:  # ForStmt: init, condvar, cond, inc, body
        cond, inc, body = raw[2], raw[3], raw[4]
        if cond.get("kind"):
            tr.visit(cond, True)
        tr.visit(body)
        if inc.get("kind"):
            tr.visit(inc)
    return tr
