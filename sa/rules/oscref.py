"""CONFORMANCE BY EVALUATION: the message builder (vsosc_null = sizer, rtosc_amessage = writer) and the readers are
evaluated - finite-domain, on the AST, helpers of the unit in place - on probe messages, and compared with the OSC 1.0
encoding of those messages written down here from the specification (plus the tags rtosc.h documents).

Nothing of the library is run: the functions' statements are interpreted over a small memory model (the address, the
type string, the argument array of unions, string and blob payloads, the destination buffer).  The probes cover every
tag, every address length mod 4, string lengths 0..5, blob lengths 0..6 with and without data, nested array brackets
and value bytes with the top bit set in every position.  How the functions are written - a switch in a loop, helper
functions per field kind, tables - does not matter.
"""
import struct

from .. import astlib as A
from .. import fdeval as FD

ADDR, TYPES, ARGS, STRS, BLOBS, MIDI, BUF = 0x10000, 0x20000, 0x30000, 0x40000, 0x50000, 0x60000, 0x70000
ARG_SZ = 16          # sizeof(rtosc_arg_t): the blob member (int32 + pointer) is the largest
NOPAYLOAD = "TFNI[]"


def pad4(n):
    return n + (4 - n % 4) % 4


def enc_str(s):
    b = s.encode("latin-1") + b"\0"
    return b + b"\0" * (pad4(len(b)) - len(b))


def encode(address, types, values):
    """OSC 1.0: address string, ',' + type tags string, then each argument big-endian, everything padded to 4 bytes"""
    out = enc_str(address) + enc_str("," + types)
    vi = 0
    for t in types:
        if t in NOPAYLOAD:
            continue
        v = values[vi]
        vi += 1
        if t in "ifcr":
            out += struct.pack(">I", v & 0xffffffff)
        elif t == "m":
            out += bytes(v)
        elif t in "htd":
            out += struct.pack(">Q", v & 0xffffffffffffffff)
        elif t in "sS":
            out += enc_str(v)
        elif t == "b":
            ln, data = v
            body = bytes(data) if data is not None else b"\0" * ln
            out += struct.pack(">I", ln) + body + b"\0" * (pad4(ln) - ln)
        else:
            raise ValueError(t)
    return out


I32, I64 = 0x81828384, 0x8182838485868788
PROBES = []
for _a in ("/a", "/ab", "/abc", "/abcd", "/abcde"):
    PROBES.append((_a, "", []))
    PROBES.append((_a, "i", [I32]))
    PROBES.append((_a, "s", ["xy"]))
for _t, _v in (("f", I32), ("c", 0x41), ("r", 0x0a0b0c0d), ("h", I64), ("t", 1), ("d", I64), ("m", [0x90, 0x3c, 0x7f, 0x00])):
    PROBES.append(("/p", _t, [_v]))
for _s in ("", "a", "abc", "abcd", "abcde"):
    PROBES.append(("/s", "s", [_s]))
    PROBES.append(("/s", "S", [_s]))
    PROBES.append(("/s", "si", [_s, 7]))
for _n in (0, 1, 3, 4, 6):
    PROBES.append(("/b", "b", [(_n, [0xa0 + i for i in range(_n)])]))
    PROBES.append(("/b", "bi", [(_n, [0xa0 + i for i in range(_n)]), I32]))
    PROBES.append(("/b", "b", [(_n, None)]))
PROBES += [("/t", "T", []), ("/t", "F", []), ("/t", "N", []), ("/t", "I", []), ("/t", "TiF", [5]), ("/t", "NsI", ["q"]),
           ("/x", "[i]", [1]), ("/x", "[[ii]s]b", [1, 2, "ab", (2, [1, 2])]), ("/x", "ifsbhtdScrmTFNI", [1, I32, "str", (3, [9, 8, 7]), I64, 2, I64, "Sym", 0x42, 3, [1, 2, 3, 4]]),
           ("/y", "hh", [I64, 1]), ("/y", "mm", [[1, 2, 3, 4], [0xff, 0xfe, 0xfd, 0xfc]]), ("/y", "sS", ["one", "three"]), ("/y", "bsb", [(5, [1, 2, 3, 4, 5]), "mid", (0, [])])]


class Model:
    """the memory the builder reads: address, type string, argument unions, payloads; and the buffer it writes"""

    def __init__(self, address, types, values, buflen):
        self.address, self.types, self.values = address, types, values
        self.buf = {}
        self.buflen = buflen
        self.oob = []
        self.memsets = []
        self.reads = []          # (argument slot, union member) the evaluated function read

    def arg(self, k, n):
        if not (0 <= k < len(self.values)):
            raise FD.Unknown("argument slot %d of %d read" % (k, len(self.values)), n)
        return self.values[k]

    def tag_of_slot(self, k):
        tags = [t for t in self.types if t not in NOPAYLOAD]
        return tags[k] if 0 <= k < len(tags) else None

    def deref(self, a, n):
        if ADDR <= a <= ADDR + len(self.address):
            return ord(self.address[a - ADDR]) if a - ADDR < len(self.address) else 0
        if TYPES <= a <= TYPES + len(self.types):
            return ord(self.types[a - TYPES]) if a - TYPES < len(self.types) else 0
        if STRS <= a < BLOBS:
            k, off = divmod(a - STRS, 0x100)
            s = self.arg(k, n)
            if isinstance(s, str) and off <= len(s):
                return ord(s[off]) if off < len(s) else 0
            raise FD.Unknown("read outside string argument %d" % k, n)
        if BLOBS <= a < MIDI:
            k, off = divmod(a - BLOBS, 0x100)
            v = self.arg(k, n)
            if isinstance(v, tuple) and v[1] is not None and off < v[0]:
                return v[1][off]
            raise FD.Unknown("read outside blob argument %d (offset %d)" % (k, off), n)
        if MIDI <= a < BUF:
            k, off = divmod(a - MIDI, 0x100)
            v = self.arg(k, n)
            if isinstance(v, list) and off < 4:
                return v[off]
            raise FD.Unknown("read outside midi argument %d" % k, n)
        if BUF <= a < BUF + 0x10000:
            return self.buf.get(a - BUF, 0)
        raise FD.Unknown("read at %#x" % a, n)

    def store(self, a, v, n):
        if BUF <= a < BUF + 0x10000:
            off = a - BUF
            if off >= self.buflen:
                self.oob.append(off)
            self.buf[off] = v & 0xff
            return
        raise FD.Unknown("store at %r" % (a,), n)

    def written(self, upto):
        return bytes(self.buf.get(i, 0) for i in range(upto))


def _member_value(model, k, names, n):
    """value of args[k].<names...>"""
    v = model.arg(k, n)
    nm = names[0]
    model.reads.append((k, nm))
    if nm == "s":
        return STRS + k * 0x100 if isinstance(v, str) else FD_unknown("union member .s of a non-string argument", n)
    if nm == "b":
        if not isinstance(v, tuple):
            raise FD.Unknown("union member .b of a non-blob argument", n)
        if len(names) == 1:
            return ("blob", k)
        if names[1] == "len":
            return v[0]
        if names[1] == "data":
            return (BLOBS + k * 0x100) if v[1] is not None else 0
    if nm == "m":
        return MIDI + k * 0x100
    if nm in ("i", "f", "c", "r", "T"):
        if isinstance(v, int):
            x = v & 0xffffffff
            return x - (1 << 32) if x >> 31 else x
        raise FD.Unknown("union member .%s of %r" % (nm, v), n)
    if nm in ("h", "t", "d"):
        if isinstance(v, int):
            x = v & 0xffffffffffffffff
            return x - (1 << 64) if (nm == "h" and x >> 63) else x
        raise FD.Unknown("union member .%s of %r" % (nm, v), n)
    raise FD.Unknown("union member .%s" % ".".join(names), n)


def FD_unknown(msg, n):
    raise FD.Unknown(msg, n)


def run_builder(unit, fname, address, types, values, buflen=4096, null_buffer=False):
    """-> (returned size, Model)"""
    fn = unit.function(fname)
    ps = unit.params(fn)
    model = Model(address, types, values, buflen)
    env = {}
    argsp = None
    strs = [p for p in ps if (A.qtype(p) or "").replace(" ", "") == "constchar*"]
    for p in ps:
        t = (A.qtype(p) or "").replace(" ", "")
        if "rtosc_arg_t" in t:
            env[p["id"]] = ARGS
            argsp = p["id"]
        elif t == "char*":
            env[p["id"]] = 0 if null_buffer else BUF
        elif t == "constchar*":
            env[p["id"]] = ADDR if p is strs[0] else TYPES
        else:
            env[p["id"]] = buflen
    if argsp is None or len(strs) != 2:
        raise FD.Unknown("%s: parameters (address, type string, argument array) not recognised" % fname, fn)
    holder = {}

    def slot_of(v, n):
        if isinstance(v, tuple) and v[0] == "argptr":
            return v[1]
        if isinstance(v, int) and ARGS <= v < ARGS + 0x1000 and (v - ARGS) % ARG_SZ == 0:
            return (v - ARGS) // ARG_SZ
        raise FD.Unknown("pointer %r is no argument slot" % (v,), n)

    def hook(n, ev):
        k = n.get("kind")
        ks = A.kids(n)
        if k == "MemberExpr" and ks:
            # args[k].x / arg->x / b.len (b a copied blob) / nested .b.len
            names = []
            e = n
            while e.get("kind") == "MemberExpr" and A.kids(e):
                names.append(e.get("name"))
                base = A.kids(e)[0]
                e = A.strip_casts(base)
            names.reverse()
            isarrow = None
            # find the innermost MemberExpr again to know whether it was `->`
            inner = n
            while A.strip_casts(A.kids(inner)[0]).get("kind") == "MemberExpr":
                inner = A.strip_casts(A.kids(inner)[0])
            isarrow = inner.get("isArrow")
            bt = (A.qtype(A.kids(inner)[0]) or "")
            if "rtosc_arg_t" in bt:
                if isarrow:
                    kslot = slot_of(ev.ev(A.kids(inner)[0]), n)
                elif e.get("kind") == "ArraySubscriptExpr":
                    base = ev.ev(A.kids(e)[0])
                    idx = ev.ev(A.kids(e)[1])
                    kslot = slot_of(base, n) + idx if isinstance(base, tuple) else slot_of(base + idx * ARG_SZ, n)
                elif e.get("kind") == "UnaryOperator" and e.get("opcode") == "*":
                    kslot = slot_of(ev.ev(A.kids(e)[0]), n)
                else:
                    return NotImplemented
                return _member_value(model, kslot, names, n)
            if "rtosc_blob_t" in bt and not isarrow:
                tok = ev.ev(A.kids(inner)[0])
                if isinstance(tok, tuple) and tok[0] == "blob":
                    return _member_value(model, tok[1], ["b"] + names, n)
            return NotImplemented
        if k == "UnaryOperator" and n.get("opcode") == "&":
            o = A.strip_casts(ks[0])
            if o.get("kind") == "ArraySubscriptExpr" and "rtosc_arg_t" in (A.qtype(o) or ""):
                base = ev.ev(A.kids(o)[0])
                idx = ev.ev(A.kids(o)[1])
                return base + idx * ARG_SZ if isinstance(base, int) else ("argptr", slot_of(base, n) + idx)
            return NotImplemented
        if k == "BinaryOperator" and n.get("opcode") in ("+", "-") and "rtosc_arg_t" in (A.qtype(n) or "") and "*" in (A.qtype(n) or ""):
            a, b = ev.ev(ks[0]), ev.ev(ks[1])
            if isinstance(a, int) and isinstance(b, int):
                return a + (b if n.get("opcode") == "+" else -b) * ARG_SZ
        if k in ("CXXConstructExpr",) and len(ks) == 1:
            return ev.ev(ks[0])
        if k == "CallExpr" and A.callee_name(n) in ("__assert_fail",):
            return 0
        if k == "StringLiteral":
            return A.string_literal(n)
        if k == "ImplicitCastExpr" and n.get("castKind") == "ArrayToPointerDecay" and A.string_literal(ks[0]) is not None:
            return A.string_literal(ks[0])
        return NotImplemented

    def cstr(a, n):
        if isinstance(a, str):
            return a
        out = []
        for i in range(300):
            c = model.deref(a + i, n)
            if not c:
                return "".join(out)
            out.append(chr(c))
        raise FD.Unknown("unterminated string", n)

    def call(nm, vals, n):
        ev = holder["ev"]
        if nm in ("strlen", "__builtin_strlen"):
            return len(cstr(vals[0], n))
        if nm in ("memset", "__builtin_memset", "__builtin___memset_chk"):
            dst, val, cnt = vals[0], vals[1], vals[2]
            if cnt and not (isinstance(dst, int) and BUF <= dst < BUF + 0x10000):
                raise FD.Unknown("memset of %r" % (dst,), n)
            model.memsets.append((dst - BUF if cnt else 0, val, cnt))
            for i in range(min(cnt, 0x4000)):
                model.store(dst + i, val, n)
            return dst
        if nm in ("memcpy", "memmove", "__builtin_memcpy", "__builtin___memcpy_chk"):
            dst, src, cnt = vals[0], vals[1], vals[2]
            for i in range(cnt):
                model.store(dst + i, ord(src[i]) if isinstance(src, str) and i < len(src) else (0 if isinstance(src, str) else model.deref(src + i, n)), n)
            return dst
        if nm in ("strcpy", "__builtin_strcpy", "stpcpy"):
            s = cstr(vals[1], n)
            for i, c in enumerate(s + "\0"):
                model.store(vals[0] + i, ord(c), n)
            return vals[0] + (len(s) if nm == "stpcpy" else 0)
        if nm in ("strchr", "memchr", "__builtin_strchr"):
            s = cstr(vals[0], n) if nm != "memchr" else None
            if isinstance(vals[0], str):
                return 1 if vals[1] and chr(vals[1] & 0xff) in vals[0] else 0
            if nm == "memchr":
                for i in range(vals[2]):
                    if model.deref(vals[0] + i, n) == (vals[1] & 0xff):
                        return vals[0] + i
                return 0
            i = s.find(chr(vals[1] & 0xff)) if vals[1] else len(s)
            return vals[0] + i if i >= 0 else 0
        if nm in ("strspn", "strcspn"):
            s = cstr(vals[0], n)
            st = cstr(vals[1], n)
            i = 0
            while i < len(s) and ((s[i] in st) == (nm == "strspn")):
                i += 1
            return i
        if nm in ("htonl", "__builtin_bswap32"):
            return struct.unpack("<I", struct.pack(">I", vals[0] & 0xffffffff))[0]
        fns_ = [f_ for f_ in unit.functions.get(nm, []) if unit.body(f_) is not None]
        if len(fns_) == 1:
            return ev.call_function(unit, fns_[0], vals)
        raise FD.Unknown("call to %s" % nm, n)
    ev = FD.Eval(env=env, deref=model.deref, store=model.store, node_hook=hook, call=call, max_steps=30000)
    holder["ev"] = ev
    return ev.call_function(unit, fn, [env[p["id"]] for p in ps]), model


class TagSummary:
    """what an evaluation learned about one tag (stands in for the shape summaries of codec_tables)"""

    def __init__(self, cls, members):
        self.cls = cls
        self.members = set(members)
        self.items = [cls]
        self.counters = {}


def builder_classes_eval(unit, fname, universe):
    """payload class of every tag as the sizer / writer treats it, from evaluations on one-argument messages:
    {tag: TagSummary}.  A function that reads a union member the offered value does not have is offered the next kind."""
    def size(types, values):
        r, m = run_builder(unit, fname, "/a", types, values)
        return r, m
    base, _ = size("", [])
    out = {}
    for t in universe:
        got = None
        for kind, vals in (("string", ["abc", "abcdefg"]), ("blob", [(1, [0xaa]), (6, [1, 2, 3, 4, 5, 6])]), ("midi", [[1, 2, 3, 4], [5, 6, 7, 8]]),
                           ("int", [I32, 1])):
            try:
                reads = []
                ds = []
                for v in vals:
                    r, m = run_builder(unit, fname, "/a", t, [v])
                    # the header grows by the one tag: ",t\0\0" is as long as ",\0\0\0"
                    ds.append(r - base)
                    reads.append(m)
            except FD.Unknown as e:
                if "union member" in str(e) or "argument slot" in str(e) or "read outside" in str(e):
                    continue
                raise
            got = (kind, ds)
            break
        if got is None:
            out[t] = TagSummary("?not evaluable", [])
            continue
        kind, ds = got
        if kind == "string" and ds == [4, 8]:
            cls = "string"
        elif kind == "blob" and ds == [8, 12]:
            cls = "blob"
        elif ds[0] == ds[1] and ds[0] in (0, 4, 8):
            cls = {0: "none", 4: "4", 8: "8"}[ds[0]]
        else:
            cls = "?%s deltas %s" % (kind, ds)
        out[t] = TagSummary(cls, sorted({nm for m_ in reads for (k_, nm) in m_.reads if k_ == 0}))
    return out


# ----------------------------------------------------------------------------------------------------------------- readers
MSG, SEG1 = 0x100000, 0x200000


def layout(address, types, values):
    """-> (message bytes, [(tag, offset of its payload or None)] for every non-bracket tag)"""
    out = enc_str(address) + enc_str("," + types)
    slots = []
    vi = 0
    for t in types:
        if t in "[]":
            continue
        if t in NOPAYLOAD:
            slots.append((t, None))
            continue
        slots.append((t, len(out)))
        out = out + encode("", "", [])[:0]
        one = encode("", t, [values[vi]])[8:]
        vi += 1
        out += one
    return out, slots


class OutOfBytes(FD.Unknown):
    """the evaluated code reads a byte behind the bytes it was given (an Unknown for evaluations that only want a value, a
    finding for the evaluations that decide where the code reads)"""
    def __init__(self, msg, n, offset=None):
        FD.Unknown.__init__(self, msg, n)
        self.offset = offset


class _Bytes:
    def __init__(self, data, split=None):
        self.d = data
        self.split = len(data) if split is None else split

    def deref(self, a, n):
        if MSG <= a < MSG + 0x10000:
            k = a - MSG
            if k < self.split:
                return self.d[k]
            raise OutOfBytes("read past the bytes of the message (offset %d of %d)" % (k, self.split), n, k)
        if SEG1 <= a < SEG1 + 0x10000:
            k = a - SEG1 + self.split
            if k < len(self.d):
                return self.d[k]
            raise OutOfBytes("read past the bytes of the message (offset %d of %d)" % (k, len(self.d)), n, k)
        raise FD.Unknown("read at %#x" % a, n)


def _reader_eval(unit, fname, args, mem, stop_at=None, ring=None):
    fn = unit.function(fname)
    holder = {}
    seen = {}

    class _Stop(Exception):
        pass

    def cstr(a, n):
        if isinstance(a, str):
            return a
        out = []
        for i in range(400):
            c = mem.deref(a + i, n)
            if not c:
                return "".join(out)
            out.append(chr(c))
        raise FD.Unknown("unterminated string", n)

    rbox = {"ring": ring}

    def hook(n, ev):
        k = n.get("kind")
        ks = A.kids(n)
        ring = rbox["ring"]
        if k == "StringLiteral":
            return A.string_literal(n)
        if k == "ImplicitCastExpr" and n.get("castKind") == "ArrayToPointerDecay" and A.string_literal(ks[0]) is not None:
            return A.string_literal(ks[0])
        if k == "CallExpr" and A.callee_name(n) in ("__assert_fail",):
            return 0
        if k == "BinaryOperator" and n.get("opcode") == "&" and any(A.callee_name(c_) == "__ctype_b_loc" for c_ in A.calls_in(ks[0])):
            # glibc's <ctype.h> macros: (*__ctype_b_loc())[(int)(c)] & mask - the classification table of the C locale
            sub = [x for x in A.walk(ks[0]) if x.get("kind") == "ArraySubscriptExpr" and any(A.callee_name(c_) == "__ctype_b_loc" for c_ in A.calls_in(A.kids(x)[0]))]
            if len(sub) != 1:
                raise FD.Unknown("ctype macro", n)
            names = [(x.get("referencedDecl") or {}).get("name") for x in A.walk(ks[1]) if x.get("kind") == "DeclRefExpr"]
            if len(names) != 1 or names[0] not in _CTYPE_BITS:
                raise FD.Unknown("ctype mask %r" % (names,), n)
            return _ctype_c_locale(ev.ev(A.kids(sub[0])[1])) & _CTYPE_BITS[names[0]]
        if k == "InitListExpr" and (A.qtype(n) or "").replace(" ", "") in ("ring_t[2]", "structring_t[2]") and len(ks) == 2 and \
                all(x.get("kind") == "InitListExpr" and len(A.kids(x)) == 2 for x in ks):
            # `ring_t ring[2] = {{msg, len}, {NULL, 0}}`: the two segments a length function is handed
            rbox["ring"] = tuple((ev.ev(A.kids(x)[0]), ev.ev(A.kids(x)[1])) for x in ks)
            return RING
        if k == "InitListExpr" and not (A.qtype(n) or "").endswith("]"):
            return ("object", "zero-initialised")          # `rtosc_arg_itr_t itr = {0}` / `rtosc_arg_t result = {0}`: members are slots
        if k == "DeclRefExpr" and (n.get("referencedDecl") or {}).get("id") not in ev.env and FD.ctype(A.qtype(n))[0] not in ("int", "ptr", "float") \
                and not (A.qtype(n) or "").endswith("]") and (n.get("referencedDecl") or {}).get("kind") == "VarDecl":
            return ("object", (n.get("referencedDecl") or {}).get("name"))      # `return itr;`
        if ring is not None and k == "MemberExpr" and n.get("name") in ("data", "len") and ks:
            b = A.strip_casts(ks[0])
            idx = None
            if b.get("kind") == "ArraySubscriptExpr":
                idx = ev.ev(A.kids(b)[1])
            elif n.get("isArrow"):
                p = ev.ev(ks[0])
                idx = (p - RING) // 16 if isinstance(p, int) and p >= RING else None
            elif b.get("kind") == "UnaryOperator" and b.get("opcode") == "*":
                idx = 0
            if idx in (0, 1):
                return ring[idx][0 if n.get("name") == "data" else 1]
            raise FD.Unknown("ring segment %r" % (idx,), n)
        return NotImplemented

    def call(nm, vals, n):
        ev = holder["ev"]
        if stop_at is not None and nm == stop_at:
            seen["args"] = vals
            raise _Stop()
        if nm in ("strlen", "__builtin_strlen"):
            return len(cstr(vals[0], n))
        if nm in ("strchr", "__builtin_strchr"):
            c_ = vals[1] & 0xff                      # (converted to char)
            if isinstance(vals[0], str):
                return 1 if c_ and chr(c_) in vals[0] else 0
            s = cstr(vals[0], n)
            i = s.find(chr(c_)) if c_ else len(s)
            return vals[0] + i if i >= 0 else 0
        if nm == "memchr":
            if isinstance(vals[0], str):
                return 1 if chr(vals[1] & 0xff) in vals[0][:vals[2]] else 0
            for i in range(vals[2]):
                if mem.deref(vals[0] + i, n) == (vals[1] & 0xff):
                    return vals[0] + i
            return 0
        if nm in ("strspn", "strcspn"):
            s, st = cstr(vals[0], n), cstr(vals[1], n)
            i = 0
            while i < len(s) and ((s[i] in st) == (nm == "strspn")):
                i += 1
            return i
        if nm in ("isprint",):
            return 1 if 32 <= vals[0] < 127 else 0
        fns_ = [f_ for f_ in unit.functions.get(nm, []) if unit.body(f_) is not None]
        if len(fns_) == 1:
            return ev.call_function(unit, fns_[0], vals)
        raise FD.Unknown("call to %s" % nm, n)
    ev = FD.Eval(deref=mem.deref, node_hook=hook, call=call, max_steps=40000)
    holder["ev"] = ev
    try:
        r = ev.call_function(unit, fn, args)
    except _Stop:
        return ("stopped", seen["args"])
    return r


RING = 0x300000


_CTYPE_BITS = {"_ISupper": 256, "_ISlower": 512, "_ISalpha": 1024, "_ISdigit": 2048, "_ISxdigit": 4096, "_ISspace": 8192, "_ISprint": 16384,
               "_ISgraph": 32768, "_ISblank": 1, "_IScntrl": 2, "_ISpunct": 4, "_ISalnum": 8}


def _ctype_c_locale(c):
    """glibc's classification bits (little endian layout of <ctype.h>) of character c in the C locale"""
    if not isinstance(c, int) or not -128 <= c < 256:
        raise FD.Unknown("ctype of %r" % (c,), None)
    if c < 0 or c > 127:
        return 0
    ch = chr(c)
    up, lo, dg = "A" <= ch <= "Z", "a" <= ch <= "z", "0" <= ch <= "9"
    xd = dg or ch in "abcdefABCDEF"
    sp = ch in " \t\n\v\f\r"
    pr = 32 <= c < 127
    gr = 32 < c < 127
    bl = ch in " \t"
    cn = c < 32 or c == 127
    al = up or lo
    pu = gr and not (al or dg)
    bits = [(up, 256), (lo, 512), (al, 1024), (dg, 2048), (xd, 4096), (sp, 8192), (pr, 16384), (gr, 32768), (bl, 1), (cn, 2), (pu, 4), (al or dg, 8)]
    return sum(v for f_, v in bits if f_)


def reader_checks(unit, address, types, values):
    """-> list of mismatch descriptions for one probe message (empty: the readers agree with the specification)"""
    data, slots = layout(address, types, values)
    mem = _Bytes(data)
    bad = []
    n = _reader_eval(unit, "rtosc_narguments", [MSG], mem)
    if n != len(slots):
        bad.append("rtosc_narguments = %r, the message has %d arguments" % (n, len(slots)))
    a = _reader_eval(unit, "rtosc_argument_string", [MSG], mem)
    want_a = MSG + len(enc_str(address)) + 1
    if a != want_a:
        bad.append("rtosc_argument_string points at offset %r, the type tags start at %d" % (a - MSG if isinstance(a, int) else a, want_a - MSG))
    for k, (t, off) in enumerate(slots):
        ty = _reader_eval(unit, "rtosc_type", [MSG, k], mem)
        if ty != ord(t):
            bad.append("rtosc_type(%d) = %r, the tag is '%s'" % (k, chr(ty) if isinstance(ty, int) and 0 < ty < 128 else ty, t))
        r = _reader_eval(unit, "rtosc_argument", [MSG, k], mem, stop_at="extract_arg")
        if not (isinstance(r, tuple) and r[0] == "stopped"):
            bad.append("rtosc_argument(%d) does not decode through extract_arg" % k)
            continue
        p, tt = r[1][0], r[1][1]
        if tt != ord(t):
            bad.append("rtosc_argument(%d) decodes with tag %r, the tag is '%s'" % (k, tt, t))
        if off is not None and p != MSG + off:
            bad.append("rtosc_argument(%d) decodes at offset %r, argument %d ('%s') lies at %d" % (k, p - MSG if isinstance(p, int) else p, k, t, off))
    return bad


def ring_length(unit, data, split=None, cap=None):
    """rtosc_message_ring_length on the bytes `data` offered in one or two segments (`cap`: bytes really offered)"""
    total = len(data) if cap is None else cap
    if split is None or split >= total:
        ring = ((MSG, total), (0, 0))
        mem = _Bytes(data[:total])
    else:
        ring = ((MSG, split), (SEG1, total - split))
        mem = _Bytes(data[:total], split)
    return _reader_eval(unit, "rtosc_message_ring_length", [RING], mem, ring=ring)


# ---------------------------------------------------------------------------------------------------------------------
# accepted => in bounds: the validity predicate and the accessors evaluated on exactly the bytes of a (malformed) buffer

SIZES = {"i": 4, "f": 4, "c": 4, "r": 4, "m": 4, "h": 8, "d": 8, "t": 8}


def accepted_in_bounds(unit, data):
    """-> None when rtosc_valid_message_p rejects the n bytes, else the list of places where the predicate or an accessor
    leaves them (empty: everything stays inside).  Reads are those of the evaluated source; the payload an argument's
    pointer announces (a string up to its terminator, a blob's length word and bytes, a fixed-width value) is followed
    from the place the accessor hands to its decoder."""
    n = len(data)
    mem = _Bytes(data)
    out = []

    def run(what, fname, args, **kw):
        try:
            return _reader_eval(unit, fname, args, mem, **kw)
        except OutOfBytes as e:
            out.append("%s reads offset %s of a %d-byte buffer (%s)" % (what, e.offset, n, A.where(e.node) if getattr(e, "node", None) else "?"))
            return None
    ok = run("rtosc_valid_message_p", "rtosc_valid_message_p", [MSG, n])
    if out:
        return out
    if not ok:
        return None
    na = run("rtosc_narguments", "rtosc_narguments", [MSG])
    ts = run("rtosc_argument_string", "rtosc_argument_string", [MSG])
    run("rtosc_itr_begin", "rtosc_itr_begin", [MSG])
    if out or not isinstance(na, int):
        return out
    # the iterator over the whole message: every step's reads (type string, payload sizes) stay inside
    try:
        iterator_walk_on(unit, mem, max_steps=na + 4)
    except OutOfBytes as e:
        out.append("the iterator (rtosc_itr_next) reads offset %s of a %d-byte buffer (%s)" % (e.offset, n, A.where(e.node) if getattr(e, "node", None) else "?"))
        return out
    for k in range(min(na, 6)):
        ty = run("rtosc_type(%d)" % k, "rtosc_type", [MSG, k])
        r = run("rtosc_argument(%d)" % k, "rtosc_argument", [MSG, k], stop_at="extract_arg")
        if not (isinstance(r, tuple) and r[0] == "stopped") or not isinstance(r[1][0], int):
            continue
        off, tag = r[1][0] - MSG, chr(r[1][1]) if isinstance(r[1][1], int) and 0 < r[1][1] < 128 else "?"
        if tag in SIZES and off + SIZES[tag] > n:
            out.append("argument %d ('%s') is decoded at offset %d..%d of a %d-byte buffer" % (k, tag, off, off + SIZES[tag], n))
        elif tag in "sS" and (off >= n or 0 not in data[off:]):
            out.append("argument %d ('%s') points at offset %d, no terminator follows inside the %d bytes" % (k, tag, off, n))
        elif tag == "b":
            if off + 4 > n:
                out.append("argument %d (blob) has its length word at offset %d of a %d-byte buffer" % (k, off, n))
            else:
                ln = int.from_bytes(data[off:off + 4], "big")
                if off + 4 + ln > n:
                    out.append("argument %d (blob) announces %d bytes at offset %d of a %d-byte buffer" % (k, ln, off + 4, n))
    return out


# ---------------------------------------------------------------------------------------------------------------------
# the argument iterator on real message bytes: which tag, decoded at which offset, step by step

def iterator_walk(unit, data, max_steps=40):
    return iterator_walk_on(unit, _Bytes(data), max_steps)


def iterator_walk_on(unit, mem, max_steps=40):
    """[(tag, offset handed to the decoder)] for rtosc_itr_begin / rtosc_itr_end / rtosc_itr_next evaluated on the bytes.
    The iterator's members are the evaluator's member slots; a struct returned by value (the decoder's result) is carried
    as its member slots, so code that reads the decoded value back (`result.val.b.len`) is followed."""
    fb, fn_, fe = unit.function("rtosc_itr_begin"), unit.function("rtosc_itr_next"), unit.function("rtosc_itr_end")
    decoded = []

    def run_fn(f, env, want_struct=False):
        """evaluate a function body in its own frame -> (returned value, final env)"""
        holder = {}

        def cstr(a, n):
            out = []
            for i in range(600):
                c = mem.deref(a + i, n)
                if not c:
                    return "".join(out)
                out.append(chr(c))
            raise FD.Unknown("unterminated string", n)

        def hook(n, ev):
            k = n.get("kind")
            ks = A.kids(n)
            if k == "StringLiteral":
                return A.string_literal(n)
            if k == "ImplicitCastExpr" and n.get("castKind") == "ArrayToPointerDecay" and ks and A.string_literal(ks[0]) is not None:
                return A.string_literal(ks[0])
            if k == "InitListExpr" and not (A.qtype(n) or "").endswith("]"):
                return ("object", "zero-initialised")
            if k == "MemberExpr":
                key = "member:" + A.src(n).replace(" ", "")
                if key in ev.env:
                    return NotImplemented
                # a member of a struct that was assigned as a whole
                pre = key
                while "." in pre[len("member:"):] or "->" in pre[len("member:"):]:
                    cut = max(pre.rfind("."), pre.rfind("->"))
                    pre, suffix = pre[:cut], key[cut:]
                    v = ev.env.get(pre)
                    if isinstance(v, tuple) and v[0] == "struct":
                        if suffix in v[1]:
                            return v[1][suffix]
                        return 0          # a member the callee never wrote: zero-initialised there
                return NotImplemented
            if k == "DeclRefExpr" and (n.get("referencedDecl") or {}).get("id") not in ev.env and FD.ctype(A.qtype(n))[0] not in ("int", "ptr", "float") \
                    and not (A.qtype(n) or "").endswith("]") and (n.get("referencedDecl") or {}).get("kind") == "VarDecl":
                return ("object", (n.get("referencedDecl") or {}).get("name"))
            if k == "CallExpr" and A.callee_name(n) in ("__assert_fail",):
                return 0
            return NotImplemented

        def call(nm, vals, n):
            if nm in ("strlen", "__builtin_strlen"):
                return len(cstr(vals[0], n)) if isinstance(vals[0], int) else len(vals[0])
            if nm in ("strspn", "strcspn"):
                s_ = cstr(vals[0], n) if isinstance(vals[0], int) else vals[0]
                st = cstr(vals[1], n) if isinstance(vals[1], int) else vals[1]
                i = 0
                while i < len(s_) and ((s_[i] in st) == (nm == "strspn")):
                    i += 1
                return i
            if nm in ("strchr", "__builtin_strchr"):
                if isinstance(vals[0], str):
                    return 1 if vals[1] and chr(vals[1] & 0xff) in vals[0] else 0
                s_ = cstr(vals[0], n)
                i = s_.find(chr(vals[1] & 0xff)) if vals[1] else len(s_)
                return vals[0] + i if i >= 0 else 0
            if nm in ("memcpy", "memmove", "__builtin_memcpy", "__builtin___memcpy_chk"):
                # a copy out of the message into a local result: the source bytes are read (and must exist)
                if isinstance(vals[1], int) and vals[1] >= MSG:
                    for i in range(vals[2]):
                        mem.deref(vals[1] + i, n)
                if isinstance(vals[0], int) and vals[0] >= MSG:
                    raise FD.Unknown("copy into the message", n)
                return vals[0]
            if nm in ("memset", "__builtin_memset"):
                if isinstance(vals[0], int) and vals[0] >= MSG:
                    raise FD.Unknown("memset of the message", n)
                return vals[0]
            fs = [f_ for f_ in unit.functions.get(nm, []) if unit.body(f_) is not None]
            if len(fs) != 1:
                raise FD.Unknown("call to %s" % nm, n)
            if nm == "extract_arg":
                decoded.append((vals[1], vals[0]))
            rt = (A.stype(fs[0]) or "").split("(")[0]
            if FD.ctype(rt)[0] in ("int", "ptr", "float") or rt.strip() == "void":
                return holder["ev"].call_function(unit, fs[0], vals)
            # a struct returned by value: its member slots come back with it
            v, env2 = run_fn(fs[0], {p_["id"]: a_ for p_, a_ in zip(unit.params(fs[0]), vals)})
            if isinstance(v, tuple) and v[0] == "object":
                pre = "member:" + str(v[1])
                return ("struct", {k_[len(pre):]: x_ for k_, x_ in env2.items() if isinstance(k_, str) and k_.startswith(pre)})
            return v
        env = dict(env)
        # `T result = {0}`: every member of a zero-initialised local that the function mentions starts as 0
        for d_ in A.walk(unit.body(f)):
            if d_.get("kind") == "VarDecl" and A.kids(d_) and A.strip_casts(A.kids(d_)[-1]).get("kind") == "InitListExpr" and not (A.qtype(d_) or "").endswith("]"):
                nm_ = d_.get("name")
                for y_ in A.walk(unit.body(f)):
                    if y_.get("kind") == "MemberExpr":
                        t_ = A.src(y_).replace(" ", "")
                        if t_.startswith(nm_ + "."):
                            env.setdefault("member:" + t_, 0)
        def store(a, v, n):
            if isinstance(a, int) and a >= MSG:
                raise FD.Unknown("store into the message", n)
            # (an element of an array member of a local result, e.g. result.m[k]: not looked at)
        ev = FD.Eval(env=env, deref=mem.deref, store=store, node_hook=hook, call=call, max_steps=8000)
        holder["ev"] = ev
        try:
            ev.run(unit.body(f))
            return None, ev.env
        except FD._Return as r:
            return r.v, ev.env

    def members(env, suffix):
        return [v for k, v in env.items() if isinstance(k, str) and k.startswith("member:") and k.endswith(suffix)]
    _, e0 = run_fn(fb, {unit.params(fb)[0]["id"]: MSG})
    tp, vp = members(e0, "type_pos"), members(e0, "value_pos")
    if len(tp) != 1 or len(vp) != 1:
        raise FD.Unknown("rtosc_itr_begin: the iterator's cursors were not assigned exactly once", fb)
    tpos, vpos = tp[0], vp[0]
    pn, pe = unit.params(fn_)[0].get("name"), unit.params(fe)[0].get("name")
    out = []
    for _ in range(max_steps):
        rv, _e = run_fn(fe, {"member:%s.type_pos" % pe: tpos, "member:%s.value_pos" % pe: vpos})
        if rv:
            return out
        del decoded[:]
        _, e1 = run_fn(fn_, {unit.params(fn_)[0]["id"]: 8192, "member:%s->type_pos" % pn: tpos, "member:%s->value_pos" % pn: vpos})
        ty = [v for k, v in e1.items() if isinstance(k, str) and k.startswith("member:") and k.endswith(".type") and "->" not in k]
        if len(ty) != 1 or not isinstance(ty[0], int):
            raise FD.Unknown("rtosc_itr_next: the result's type was not assigned exactly once", fn_)
        where = [p_ for t_, p_ in decoded if t_ == ty[0]]
        out.append((chr(ty[0]) if 0 < ty[0] < 128 else "?", (where[0] - MSG) if where and isinstance(where[0], int) else None))
        tpos, vpos = e1["member:%s->type_pos" % pn], e1["member:%s->value_pos" % pn]
    raise FD.Unknown("the iterator does not reach its end", fn_)


def default_values(types):
    """one value per value-carrying tag of a type string (for probe messages made from type strings alone)"""
    out = []
    for k, t in enumerate(types):
        if t in "ifcr":
            out.append(0x01020300 + k)
        elif t in "htd":
            out.append(0x0102030405060700 + k)
        elif t in "sS":
            out.append("s%d" % k)
        elif t == "b":
            out.append((k % 5, [0xb0 + j for j in range(k % 5)]))
        elif t == "m":
            out.append([1, 2, 3, k])
    return out


def iterator_checks(unit, address, types, values):
    """-> mismatch descriptions: the iterator must decode every argument of the probe message with its tag at its offset"""
    data, slots = layout(address, types, values)
    try:
        got = iterator_walk(unit, data)
    except OutOfBytes as e:
        return ["the iterator reads offset %s of the %d-byte message (%s)" % (e.offset, len(data), A.where(e.node) if getattr(e, "node", None) else "?")]
    bad = []
    if [t for t, _ in got] != [t for t, _ in slots]:
        bad.append("the iterator yields the tags %s, the message has %s" % ("".join(t for t, _ in got), "".join(t for t, _ in slots)))
        return bad
    for k, ((t, off), (t2, want)) in enumerate(zip(got, slots)):
        if want is not None and off != want:
            bad.append("argument %d ('%s') is decoded at offset %r, it lies at %d" % (k, t, off, want))
    return bad
