"""ARG-SLOTS: a function that fills a type string and an rtosc_arg_t array in a loop and hands both to rtosc_amessage must
use the slot discipline rtosc_amessage consumes: one array element per value-carrying tag, none for T F N I.

Consumer table: which tags make rtosc_amessage advance its argument index (read off its tag switch).
Producer: the loop body is evaluated once per tag (finite-domain, on the AST) with every index variable at a distinct
sentinel; this yields, per tag, which variable indexes the store into the value array (if any), which indexes the store
into the type string, and by how much each index variable moves per iteration.  The two are then compared on every tag
sequence of length 1..3 over the fifteen value tags: the k-th value-carrying tag must be stored in element k.
"""
import itertools

from .. import astlib as A
from .. import fdeval as FD
from ..facts import AnalysisBroken

TAGS = "ifsbhtdScrmTFNI"


def consumer_table(unit_c):
    from . import codec_tables as T
    out = {}
    try:
        tab, dflt, sw, cur, fn = T.loop_switch_summaries(unit_c, "rtosc_amessage")
        for t in TAGS:
            S = tab.get(t, dflt)
            out[t] = (S.counters if S is not None else {}).get("argidx", 0)
    except AnalysisBroken:
        # not a tag switch in a loop: the writer is evaluated on `<tag>i` with two distinguishable argument slots; the
        # bytes it emits for the trailing `i` tell whether the tag in front consumed a slot
        from . import oscref as O
        X, Y = 0x0a0b0c0d, 0x01020304
        for t in TAGS:
            res = None
            for first in ("abc", (2, [7, 7]), [1, 2, 3, 4], X):
                try:
                    r, m = O.run_builder(unit_c, "rtosc_amessage", "/a", t + "i", [first, Y])
                except FD.Unknown as e:
                    if "union member" in str(e) or "read outside" in str(e):
                        continue
                    raise AnalysisBroken("ARG-SLOTS: rtosc_amessage not evaluable on `%si`: %s" % (t, e))
                tail = m.written(r)[-4:]
                if tail == bytes([1, 2, 3, 4]):
                    res = 1
                    break
                if first == X and tail == bytes([0x0a, 0x0b, 0x0c, 0x0d]):
                    res = 0
                    break
            if res is None:
                raise AnalysisBroken("ARG-SLOTS: slot consumption of tag '%s' in rtosc_amessage not decided by evaluation" % t)
            out[t] = res
    if not any(out.values()) or all(out.values()):
        raise AnalysisBroken("ARG-SLOTS: rtosc_amessage's argument index discipline not recognised: %s" % out)
    return out


def producers(unit):
    """(fn, call, type-array decl id, value-array decl id, loop) for rtosc_amessage calls fed from local arrays filled in a loop"""
    out = []
    for q, fns in unit.functions.items():
        for fn in fns:
            body = unit.body(fn)
            if body is None:
                continue
            for c in A.calls_in(body, "rtosc_amessage"):
                a = A.kids(c)[1:]
                if len(a) < 5:
                    continue
                tid, vid = A.ref_id(a[3]), A.ref_id(a[4])
                if tid is None or vid is None:
                    continue
                for lp in A.walk(body):
                    if lp.get("kind") not in ("ForStmt", "WhileStmt", "DoStmt"):
                        continue
                    st = _array_stores(lp)
                    if any(x[0] == tid for x in st) and any(x[0] == vid for x in st):
                        # innermost such loop
                        inner = [l2 for l2 in A.walk(lp) if l2 is not lp and l2.get("kind") in ("ForStmt", "WhileStmt", "DoStmt") and
                                 any(x[0] == tid for x in _array_stores(l2)) and any(x[0] == vid for x in _array_stores(l2))]
                        if not inner:
                            out.append((q, fn, c, tid, vid, lp))
    return out


def _assign_sides(x):
    """(lhs, rhs) of an assignment: the built-in operator, or a C++ class/union copy assignment (operator=)"""
    if x.get("kind") == "BinaryOperator" and x.get("opcode") == "=":
        return A.kids(x)[0], A.kids(x)[1]
    if x.get("kind") == "CXXOperatorCallExpr" and len(A.kids(x)) == 3 and "operator=" in A.src(A.kids(x)[0]):
        return A.kids(x)[1], A.kids(x)[2]
    return None, None


def _array_stores(root):
    out = []
    for x in A.walk(root):
        lhs, _ = _assign_sides(x)
        if lhs is not None:
            l = A.strip_casts(lhs)
            if l.get("kind") == "ArraySubscriptExpr":
                out.append((A.ref_id(A.kids(l)[0]), x))
    return out


def producer_table(unit, fn, tid, vid, loop):
    """{tag: (value index var or None, type index var, {index var: delta})}"""
    if loop.get("kind") == "ForStmt":
        raw = loop.get("inner", [])
        body, inc = raw[4], raw[3]
    elif loop.get("kind") == "DoStmt":
        body, inc = A.kids(loop)[0], None
    else:
        body, inc = A.kids(loop)[-1], None
    # integer variables used as subscripts of the two arrays, or stepped in the loop
    idx_ids = set()
    for aid, st in _array_stores(loop):
        if aid in (tid, vid):
            l = A.strip_casts(_assign_sides(st)[0])
            for y in A.walk(A.kids(l)[1]):
                if y.get("kind") == "DeclRefExpr" and (y.get("referencedDecl") or {}).get("kind") in ("VarDecl", "ParmVarDecl"):
                    idx_ids.add(y["referencedDecl"]["id"])
    if not idx_ids:
        raise AnalysisBroken("ARG-SLOTS: no index variable in %s" % A.where(loop))
    sent = {i: 1000 * (k + 1) for k, i in enumerate(sorted(idx_ids))}
    names = {i: (unit.by_id.get(i) or {}).get("name", str(i)) for i in idx_ids}
    table = {}
    for t in TAGS:
        stores = []

        def hook(n, ev, t=t, stores=stores):
            k = n.get("kind")
            if k == "MemberExpr":
                nm = n.get("name")
                if nm == "type":
                    return ord(t)
                if nm in ("val", "i", "f", "s", "b", "h", "d", "T", "m"):
                    return 777
                return NotImplemented
            lhs, rhs = _assign_sides(n)
            if lhs is not None:
                l = A.strip_casts(lhs)
                if l.get("kind") == "ArraySubscriptExpr" and A.ref_id(A.kids(l)[0]) in (tid, vid):
                    iv = ev.ev(A.kids(l)[1])
                    ev.ev(rhs)
                    stores.append((A.ref_id(A.kids(l)[0]), iv))
                    return 0
                if l.get("kind") == "DeclRefExpr" and (l.get("referencedDecl") or {}).get("id") not in idx_ids:
                    ev.ev(rhs)
                    ev.env[l["referencedDecl"]["id"]] = 555
                    return 555
            if k == "CallExpr":
                fns_ = [f_ for f_ in unit.functions.get(A.callee_name(n) or "", []) if unit.body(f_) is not None]
                if len(fns_) == 1:              # a helper of this unit (e.g. `type_carries_value(type)`): evaluated
                    return ev.call_function(unit, fns_[0], [ev.ev(a_) for a_ in A.kids(n)[1:]])
            if k == "CallExpr" or k == "CXXMemberCallExpr" or k == "CXXOperatorCallExpr":
                return 555                      # iterator helpers: opaque, no effect on the indices
            return NotImplemented
        ev = FD.Eval(env=dict(sent), node_hook=hook, max_steps=4000)
        try:
            try:
                ev.run(body)
            except FD._Continue:
                pass
            if inc is not None and inc.get("kind"):
                ev.ev(inc)
        except FD.Unknown as e:
            raise AnalysisBroken("ARG-SLOTS: loop at %s not evaluable for tag '%s': %s" % (A.where(loop), t, e))
        except (FD._Break, FD._Return):
            raise AnalysisBroken("ARG-SLOTS: loop at %s leaves on tag '%s'" % (A.where(loop), t))

        def var_of(v):
            for i, s0 in sent.items():
                if 0 <= v - s0 < 500:
                    return i, v - s0
            return None, None
        vst = [var_of(v) for a_, v in stores if a_ == vid]
        tst = [var_of(v) for a_, v in stores if a_ == tid]
        if len(tst) != 1 or len(vst) > 1 or any(x[0] is None for x in vst + tst):
            raise AnalysisBroken("ARG-SLOTS: stores of loop at %s not recognised for tag '%s'" % (A.where(loop), t))
        deltas = {i: ev.env[i] - sent[i] for i in idx_ids}
        table[t] = (vst[0] if vst else None, tst[0], deltas)
    return table, names


def mismatches(cons, prod, maxlen=3, limit=6):
    """tag sequences on which the element a value is stored in differs from the element rtosc_amessage reads"""
    bad = []
    for n in range(1, maxlen + 1):
        for seq in itertools.product(TAGS, repeat=n):
            vars_ = {}
            k_cons = 0
            for pos, t in enumerate(seq):
                vslot, tslot, deltas = prod[t]
                for i in deltas:
                    vars_.setdefault(i, 0)
                type_at = vars_[tslot[0]] + tslot[1]
                if type_at != pos:
                    bad.append({"types": "".join(seq), "tag": t, "type_written_at": type_at, "expected": pos})
                    break
                if cons[t]:
                    stored = None if vslot is None else vars_[vslot[0]] + vslot[1]
                    if stored != k_cons:
                        bad.append({"types": "".join(seq), "tag": t, "value_stored_in_element": stored, "rtosc_amessage_reads_element": k_cons})
                        break
                    k_cons += 1
                for i, d in deltas.items():
                    vars_[i] += d
            if len(bad) >= limit:
                return bad
    return bad


def stored_tag(unit, loop, tid, vid, kind):
    """the character the filling loop stores into the type string for an argument value of kind `kind` (None: none)"""
    if loop.get("kind") == "ForStmt":
        body = loop.get("inner", [])[4]
    elif loop.get("kind") == "DoStmt":
        body = A.kids(loop)[0]
    else:
        body = A.kids(loop)[-1]
    got = []

    def hook(n, ev):
        k = n.get("kind")
        if k == "MemberExpr":
            nm = n.get("name")
            if nm == "type":
                return ord(kind)
            if nm in ("val", "i", "f", "s", "b", "h", "d", "T", "m"):
                return 777
            return NotImplemented
        lhs, rhs = _assign_sides(n)
        if lhs is not None:
            l = A.strip_casts(lhs)
            if l.get("kind") == "ArraySubscriptExpr" and A.ref_id(A.kids(l)[0]) in (tid, vid):
                v = ev.ev(rhs)
                if A.ref_id(A.kids(l)[0]) == tid:
                    got.append(v)
                return 0
            if l.get("kind") == "DeclRefExpr":
                ev.ev(rhs)
                ev.env[l["referencedDecl"]["id"]] = 555
                return 555
        if k == "CallExpr":
            fns_ = [f_ for f_ in unit.functions.get(A.callee_name(n) or "", []) if unit.body(f_) is not None]
            if len(fns_) == 1:
                return ev.call_function(unit, fns_[0], [ev.ev(a_) for a_ in A.kids(n)[1:]])
        if k in ("CallExpr", "CXXMemberCallExpr", "CXXOperatorCallExpr"):
            return 555
        if k == "DeclRefExpr" and (n.get("referencedDecl") or {}).get("id") not in ev.env and FD.ctype(A.qtype(n))[0] == "int":
            return 0
        return NotImplemented
    ev = FD.Eval(node_hook=hook, max_steps=4000)
    try:
        ev.run(body)
    except (FD._Continue, FD._Break, FD._Return):
        pass
    except FD.Unknown as e:
        raise AnalysisBroken("ARG-SLOTS: loop at %s not evaluable for kind '%s': %s" % (A.where(loop), kind, e))
    return [chr(v) if isinstance(v, int) and 0 < v < 128 else v for v in got]
