"""G7 - untrusted length: values assembled from bytes of the untrusted buffer
(results of the source call, combined by zext/shl/or/and, and round trips
through stack slots) are *tainted*.  An `add`/`sub`/`mul` with a tainted operand
must be dominated by the bounded-edge of an unsigned comparison one of whose
operands is a load of the same slot, i.e. an edge on which tainted <= bound
(or tainted < bound).  (-O0 IR; flow-insensitive on slots.)
"""
import re

from .guard import parse_load, parse_store

_RE_ICMP = re.compile(r'^icmp (\w+) (\S+) (\S+), (\S+?)(?:,|$)')
PROP_OPS = ("zext", "sext", "trunc", "shl", "or", "and", "lshr", "ashr", "bitcast", "phi", "select", "xor")
ARITH = ("add", "sub", "mul")


def tainted(fn, source_callees):
    vals = set()
    slots = set()
    changed = True
    while changed:
        changed = False
        for i in fn.insts():
            if i.res is None and i.op != "store":
                continue
            if i.op in ("call", "invoke") and not i.indirect and i.callee in source_callees:
                if i.res and i.res not in vals:
                    vals.add(i.res)
                    changed = True
            elif i.op in PROP_OPS:
                if i.res not in vals and any(o in vals for o in i.ops):
                    vals.add(i.res)
                    changed = True
            elif i.op == "store":
                v, p = parse_store(i)
                if v in vals and p not in slots:
                    d = fn.defs().get(p)
                    if d is not None and d.op == "alloca":
                        slots.add(p)
                        changed = True
            elif i.op == "load":
                p = parse_load(i)
                if p in slots and i.res not in vals:
                    vals.add(i.res)
                    changed = True
    return vals, slots


def _slot_of(fn, val, depth=0):
    """slot a value was (transitively through casts) loaded from"""
    d = fn.defs().get(val)
    if d is None or depth > 4:
        return None
    if d.op == "load":
        return parse_load(d)
    if d.op in ("zext", "sext", "trunc"):
        return _slot_of(fn, d.ops[0], depth + 1) if d.ops else None
    return None


_BOUNDED_TRUE = {"ult", "ule", "slt", "sle"}    # pred(T, X) true  => T bounded
_BOUNDED_FALSE = {"ugt", "uge", "sgt", "sge"}   # pred(T, X) false => T bounded


def bounding_edges(fn, slot):
    """CFG edges (src block, dst block) on which the value held in `slot` is bounded from above by the other operand."""
    out = []
    for i in fn.insts():
        if i.op != "icmp":
            continue
        m = _RE_ICMP.match(i.text)
        if not m:
            continue
        pred, ty, a, b = m.groups()
        sa, sb = _slot_of(fn, a), _slot_of(fn, b)
        if sa == slot and sb != slot:
            t_first = True
        elif sb == slot and sa != slot:
            t_first = False
        else:
            continue
        br = None
        for j in i.block.insts:
            if j.op == "br" and i.res in j.ops and len(j.succs) == 2:
                br = j
        if br is None:
            continue
        p = pred
        if not t_first:   # pred(X, T)  ==  swapped(T, X)
            p = {"ult": "ugt", "ule": "uge", "ugt": "ult", "uge": "ule", "slt": "sgt", "sle": "sge", "sgt": "slt", "sge": "sle"}.get(pred, pred)
        if p in _BOUNDED_TRUE:
            out.append((br.block.label, br.succs[0], i))
        elif p in _BOUNDED_FALSE:
            out.append((br.block.label, br.succs[1], i))
    return out


def unguarded_arith(fn, source_callees):
    """-> (list of (inst, slot, guarded bool, guard icmp or None), tainted slots)"""
    vals, slots = tainted(fn, source_callees)
    res = []
    for i in fn.insts():
        if i.op in ARITH and any(o in vals for o in i.ops):
            tops = [o for o in i.ops if o in vals]
            ok_all = True
            gi = None
            sl = None
            for o in tops:
                sl = _slot_of(fn, o)
                if sl is None:
                    ok_all = False
                    continue
                g = None
                for (s, dlab, ic) in bounding_edges(fn, sl):
                    if fn.edge_dominates(s, dlab, i):
                        g = ic
                        break
                if g is None:
                    ok_all = False
                else:
                    gi = g
            res.append((i, sl, ok_all, gi))
    return res, slots
