"""ITERATOR-TAGS: the argument iterator (rtosc_itr_begin / rtosc_itr_next / rtosc_itr_end) walks the type-tag string
exactly as the indexed accessors count it - every tag except the array delimiters '[' and ']', in order.

The three functions are evaluated (finite-domain, on the AST) with the message reduced to its type string: the calls
that touch the payload (extract_arg, arg_size, arg_start) are stubbed, rtosc_argument_string yields the base address of
a probe type string, and the iterator's members are the evaluator's member slots.  Unit helpers (the bracket skipper,
whatever it is called) are evaluated in place.
"""
from .. import astlib as A
from .. import fdeval as FD

TBASE = 1 << 16
VBASE = 1 << 20
PROBES = ["", "i", "if", "[i]", "[ii]f", "i[ff]s", "[i[ii]]", "[[ii][ii]]", "[i][i]", "i[]f", "[[]]", "[[i]]s", "[]", "T[F]N", "[[[i]]]f", "s[[b]h]]d"]
STUBS = {"extract_arg": 0, "arg_size": 4, "arg_start": 0}


def _eval(unit, fn, env, types):
    def deref(addr, n):
        k = addr - TBASE
        if 0 <= k < len(types) + 4:      # in a message the type string is followed by its zero padding
            return ord(types[k]) if k < len(types) else 0
        raise FD.Unknown("read outside the type string (offset %d)" % k, n)

    def hook(n, ev):
        k = n.get("kind")
        if k == "CallExpr":
            name = A.callee_name(n)
            if name in STUBS:
                return STUBS[name]
            if name == "rtosc_argument_string":
                return TBASE
            if name in ("strlen", "strspn", "strcspn", "strchr"):
                vals = [ev.ev(a) for a in A.kids(n)[1:]]

                def text(v):
                    if isinstance(v, str):
                        return v
                    if isinstance(v, int) and TBASE <= v < TBASE + len(types) + 4:
                        return types[v - TBASE:]
                    raise FD.Unknown("string operand %r of %s" % (v, name), n)
                if name == "strlen":
                    return len(text(vals[0]))
                if name == "strchr":
                    if isinstance(vals[0], str):
                        return 1 if vals[1] and chr(vals[1] & 0xff) in vals[0] else 0
                    t_ = text(vals[0])
                    i_ = t_.find(chr(vals[1] & 0xff)) if vals[1] else len(t_)
                    return vals[0] + i_ if i_ >= 0 else 0
                t_, set_ = text(vals[0]), text(vals[1])
                i_ = 0
                while i_ < len(t_) and ((t_[i_] in set_) == (name == "strspn")):
                    i_ += 1
                return i_
            fns = [f for f in unit.functions.get(name, []) if unit.body(f) is not None]
            if len(fns) == 1:
                return ev.call_function(unit, fns[0], [ev.ev(a) for a in A.kids(n)[1:]])
            raise FD.Unknown("call to %s" % name, n)
        if k == "DeclRefExpr" and (n.get("referencedDecl") or {}).get("id") not in ev.env and FD.ctype(A.qtype(n))[0] not in ("int", "ptr"):
            return ("object", (n.get("referencedDecl") or {}).get("name"))      # `return itr;` - the members are read off the slots
        if k == "StringLiteral":
            return A.string_literal(n)
        if k == "ImplicitCastExpr" and n.get("castKind") == "ArrayToPointerDecay" and A.string_literal(A.kids(n)[0]) is not None:
            return A.string_literal(A.kids(n)[0])
        if k == "InitListExpr":
            return 0                      # `rtosc_arg_val_t result = {0,{0}}`
        if k == "MemberExpr" and n.get("name") == "val":
            return 0
        return NotImplemented

    def store(addr, v, n):
        raise FD.Unknown("store through a pointer", n)
    ev = FD.Eval(env=dict(env), deref=deref, node_hook=hook, max_steps=4000)
    try:
        ev.run(unit.body(fn))
    except FD._Return as r:
        return ev, r.v
    return ev, None


def _member(ev, suffix):
    hits = [(k, v) for k, v in ev.env.items() if isinstance(k, str) and k.startswith("member:") and k.endswith(suffix)]
    return hits


def walk(unit, types):
    """tags the iterator yields for a message with this type string"""
    beg = unit.function("rtosc_itr_begin")
    nxt = unit.function("rtosc_itr_next")
    end = unit.function("rtosc_itr_end")
    ev, _ = _eval(unit, beg, {unit.params(beg)[0]["id"]: 4096}, types)
    tp = [v for k, v in _member(ev, "type_pos")]
    if len(tp) != 1:
        raise FD.Unknown("rtosc_itr_begin: the type cursor member was not assigned exactly once", beg)
    pos = tp[0]
    out = []
    pn = unit.params(nxt)[0].get("name")
    pe = unit.params(end)[0].get("name")
    for _ in range(40):
        ev, rv = _eval(unit, end, {"member:%s.type_pos" % pe: pos, "member:%s.value_pos" % pe: VBASE}, types)
        if rv:
            return out
        ev, _ = _eval(unit, nxt, {unit.params(nxt)[0]["id"]: 8192, "member:%s->type_pos" % pn: pos, "member:%s->value_pos" % pn: VBASE}, types)
        ty = [v for k, v in ev.env.items() if isinstance(k, str) and k.startswith("member:") and k.endswith(".type") and "->" not in k]
        if len(ty) != 1:
            raise FD.Unknown("rtosc_itr_next: the result's type member was not assigned exactly once", nxt)
        out.append(chr(ty[0]) if 0 < ty[0] < 128 else "\\x%02x" % (ty[0] & 0xff))
        pos = ev.env["member:%s->type_pos" % pn]
    raise FD.Unknown("the iterator does not reach its end on %r" % types, nxt)
