"""DATE-EXTENT: the scanner's time-tag branch consumes exactly the text the syntax checker's time-tag branch accepts, and
reads no local it has not assigned - decided by evaluating both branches (finite-domain, on the AST, with the sscanf model
of scanfmodel.py) over probe texts built from the spellings the printer produces and the manual documents.

The probes are dates followed by every optional part (time, seconds, fraction, parenthesised exact fraction in the
printer's own spelling and in the documented 0x...p-32 spelling), each followed by nothing or by another value; the exact
fraction of the printer is read off the printer's own format literal.
"""
from .. import astlib as A
from .. import fdeval as FD
from ..facts import AnalysisBroken
from . import scanfmodel as SM

BASE = 4096


class UninitRead(Exception):
    def __init__(self, name, node):
        Exception.__init__(self, name)
        self.name = name
        self.node = node


def _branch(unit, fn, test):
    """the IfStmt of fn whose condition satisfies test(cond)"""
    hits = [x for x in A.walk(unit.body(fn)) if x.get("kind") == "IfStmt" and test(A.kids(x)[0])]
    return hits


def scanner_branch(unit, fn):
    hits = _branch(unit, fn, lambda c: any(A.callee_name(k) == "is_date" for k in A.calls_in(c)))
    if len(hits) != 1:
        raise AnalysisBroken("scanner: expected one branch guarded by is_date(), found %d" % len(hits))
    return hits[0]


def checker_branch(unit, fn):
    def test(c):
        for k in A.calls_in(c):
            if A.callee_name(k) in ("skip_fmt", "skip_fmt_null"):
                lit = A.string_literal(A.kids(k)[2])
                if lit and lit.startswith("%*4d-"):
                    return True
        return False
    hits = _branch(unit, fn, test)
    if len(hits) != 1:
        raise AnalysisBroken("checker: expected one branch guarded by the date pattern, found %d" % len(hits))
    return hits[0]


def _addr_target(ev, node):
    n = A.strip_casts(node)
    if n.get("kind") == "UnaryOperator" and n.get("opcode") == "&":
        return ev._lv(A.kids(n)[0])[0]
    raise FD.Unknown("output argument is not an address-of expression", node)


def run_branch(unit, text, cond, body, src_id, outer_env=None):
    """-> (consumed characters or None when the branch rejects the text, name of an uninitialised local read or None)"""
    locals_ = {d["id"]: d.get("name") for d in A.walk(body) if d.get("kind") == "VarDecl"}

    def deref(addr, n):
        k = addr - BASE
        if k < 0 or k > len(text):
            raise FD.Unknown("read outside the probe text", n)
        return ord(text[k]) if k < len(text) else 0

    def hook(n, ev):
        k = n.get("kind")
        if k == "DeclRefExpr":
            i = (n.get("referencedDecl") or {}).get("id")
            if i in locals_ and i not in ev.env:
                raise UninitRead(locals_[i], n)
            return NotImplemented
        if k == "BinaryOperator" and n.get("opcode") == "=":
            lhs = A.strip_casts(A.kids(n)[0])
            if lhs.get("kind") == "UnaryOperator" and lhs.get("opcode") == "*":
                return ev.ev(A.kids(n)[1])       # a store through an output pointer (*type = 't'): no effect on the extent
            return NotImplemented
        if k != "CallExpr":
            return NotImplemented
        name = A.callee_name(n)
        args = A.kids(n)[1:]
        if name == "sscanf":
            at = ev.ev(args[0])
            fmt = A.string_literal(args[1])
            if fmt is None:
                raise FD.Unknown("sscanf with a computed format", n)
            got, _ = SM.scan(text[at - BASE:], fmt)
            outs = args[2:]
            if len(got) > len(outs):
                raise FD.Unknown("sscanf: more conversions than output arguments", n)
            cnt = 0
            for (c, v), o in zip(got, outs):
                ev.env[_addr_target(ev, o)] = v
                if c != "n":
                    cnt += 1
            return cnt
        if name in ("skip_fmt", "skip_fmt_null"):
            tgt = _addr_target(ev, args[0])
            fmt = A.string_literal(args[1])
            if fmt is None:
                raise FD.Unknown("skip_fmt with a computed format", n)
            at = ev.env[tgt]
            c = SM.consumed(text[at - BASE:], fmt)
            ev.env[tgt] = at + c if (c or name == "skip_fmt") else 0
            return c
        if name == "rtosc_float2secfracs":
            return int(ev.ev(args[0]) * 4294967296.0)
        if name == "rtosc_arg_val_from_params":
            ev.ev(args[2])         # the value handed on must have been assigned
            return 0
        if name in ("isdigit", "isspace", "isalpha", "isalnum"):
            v = ev.ev(args[0])
            ch = chr(v) if 0 < v < 128 else ""
            return 1 if ch and getattr(ch, name)() else 0
        # a helper of the unit: evaluated in place (its locals count as locals of the branch)
        d = A.callee_decl(n)
        for q, fl in unit.functions.items():
            for f in fl:
                if d is not None and unit.body(f) is not None and (f.get("id") == d.get("id") or q.split("::")[-1] == name):
                    for x in A.walk(unit.body(f)):
                        if x.get("kind") == "VarDecl":
                            locals_[x["id"]] = x.get("name")
                    return ev.call_function(unit, f, [ev.ev(a) for a in args])
        raise FD.Unknown("call to %s in the time-tag branch" % name, n)
    env = {src_id: BASE}
    env.update(outer_env or {})
    ev = FD.Eval(env=env, deref=deref, node_hook=hook, max_steps=5000)
    try:
        if cond is not None and not ev.ev(cond):
            return None, None
        ev.run(body)
    except UninitRead as u:
        at = ev.env.get(src_id)
        return (at - BASE if at else None), u.name
    at = ev.env.get(src_id)
    if not at:
        return None, None
    return at - BASE, None


def printer_exact_suffix(unit, fn):
    """the format literal with which the printer appends the exact fraction of a time tag (contains %a), e.g. ' (...+%as)'"""
    lits = []
    # the printer itself and the file-local helpers it hands the time-tag case to (two levels)
    hosts = [fn]
    for _ in range(2):
        for h_ in list(hosts):
            for c in A.calls_in(unit.body(h_)):
                for g_ in unit.functions.get(A.callee_name(c) or "", []):
                    if g_ not in hosts and unit.body(g_) is not None and g_.get("storageClass") == "static":
                        hosts.append(g_)
    for h_ in hosts:
        for c in A.calls_in(unit.body(h_)):
            for a in A.kids(c)[1:]:
                lit = A.string_literal(a)
                if lit and "%a" in lit and "..." in lit:
                    lits.append(lit)
    return sorted(set(lits))


def probes(exact_suffixes):
    date = "2016-11-16"
    parts = ["", " 19:44", " 19:44:06", " 19:44:06.123", " 00:00:00.62"]
    out = []
    for p in parts:
        out.append(date + p)
    for suf in exact_suffixes:
        for hx in ("0x1.4p-1", "0x1p-1", "0x1.f7ced8p-4"):
            out.append(date + " 00:00:00.62" + suf.replace("%a", hx))
    out.append(date + " 00:00:00.123 ( ... + 0xa0000000p-32 s )")
    out.append(date + " 00:00:00.123 (...+0x80000000p-32s)")
    followers = ["", " 15.00 (0x1.ep+3)", " 7", " 0.5", " 2.5d (0x1.4p+1)", " [1 2]", " \"s\""]
    return [d + f for d in out for f in followers]


def obligations(ctx, u, rule):
    """one obligation per group of probes (same time-of-day spelling), so that a finding names the spelling that fails"""
    scn = u.function("rtosc_scan_arg_val")
    chk = u.function("rtosc_skip_next_printed_arg")
    prn = u.function("rtosc_print_arg_val")
    sb = scanner_branch(u, scn)
    cb = checker_branch(u, chk)
    suf = printer_exact_suffix(u, prn)
    if not suf:
        raise AnalysisBroken("%s: the printer's exact-fraction format literal was not found" % rule)

    def srcid(fn):
        ps = [p for p in u.params(fn) if p.get("name") == "src"]
        if len(ps) != 1:
            raise AnalysisBroken("%s: cursor parameter `src` not found" % rule)
        return ps[0]["id"]
    # variables of the scanner declared outside the branch and used inside: their value on entry is not known; `rd` is
    # (re)assigned before every use in a correct branch, it starts at 0 here as at its declaration
    outer = {}
    inner_ids = {d["id"] for d in A.walk(A.kids(sb)[1]) if d.get("kind") == "VarDecl"}
    for y in A.walk(A.kids(sb)[1]):
        if y.get("kind") == "DeclRefExpr" and (y.get("referencedDecl") or {}).get("kind") == "VarDecl":
            i = y["referencedDecl"]["id"]
            d = u.by_id.get(i)
            if i not in inner_ids and d is not None and A.kids(d) and A.int_literal(A.kids(d)[-1]) is not None:
                outer[i] = A.int_literal(A.kids(d)[-1])
    groups = {}
    for t in probes(suf):
        key = "date" + t[10:].split(" 15.00")[0].split(" 7")[0].split(" 0.5")[0].split(" 2.5d")[0].split(" [")[0].split(' "')[0]
        groups.setdefault(key, []).append(t)
    n = 0
    for key in sorted(groups):
        bad = []
        for t in groups[key]:
            try:
                c, _ = run_branch(u, t, A.kids(cb)[0], A.kids(cb)[1], srcid(chk))
                s_, uninit = run_branch(u, t, None, A.kids(sb)[1], srcid(scn), outer)
            except FD.Unknown as e:
                raise AnalysisBroken("%s: time-tag branch not evaluable on %r: %s" % (rule, t, e))
            n += 1
            if c is None:
                continue           # the checker rejects the text: the scanner is never run on it
            if uninit is not None:
                bad.append({"text": t, "scanner_reads_unassigned": uninit, "checker_accepts": t[:c]})
            elif s_ != c:
                bad.append({"text": t, "checker_accepts": t[:c], "scanner_consumes": t[:s_] if s_ is not None else None})
        ctx.ob(rule, "time tag `%s`" % key.replace("date", "YYYY-MM-DD"), not bad, site=A.where(sb), detail={"probes": len(groups[key]), "disagreements": bad[:4]},
               key="%s:%s" % (rule, key),
               what="the scanner's time-tag branch and the checker's disagree on %s" % (bad[:2],))
    return n
