"""PREV-SLOT: where a list of argument values is printed (top level and inside `[...]`), the value handed to
rtosc_print_arg_val as "the one before, in case this is a range" must be the slot directly in front of the current
position of the ORIGINAL list - NULL for the first - because that is what the readers look behind at (arg[-1]).

Decided by evaluating the loop's own bookkeeping (finite-domain, on the AST): everything that is not arithmetic on local
variables is opaque; rtosc_convert_to_range and next_arg_offset return scripted values (how many slots the current
argument takes, whether it was converted to a range), so that arguments spanning several slots occur.  At every call of
rtosc_print_arg_val the sixth argument is compared with `position - 1 slot`, the position being the first argument of the
rtosc_convert_to_range call of the same iteration.
"""
from .. import astlib as A
from .. import fdeval as FD
from ..facts import AnalysisBroken

SLOT = 24
BASE = 1 << 20
SCENARIOS = (
    [(0, 1)] * 6,                       # six single-slot values
    [(0, 3), (0, 1), (0, 2)],           # a 3-slot range/array header first, then a value, then a 2-slot repetition
    [(0, 1), (0, 4), (0, 1)],
    [(3, 3), (0, 1), (2, 2)],           # the printer converted 3 equal values to a range (conv = slots consumed)
    [(0, 2), (4, 4)],
)


def list_sites(unit):
    """(function name, loop node, call node) for calls of rtosc_print_arg_val inside a loop that also calls
    rtosc_convert_to_range (a list printer)"""
    out = []
    for q, fns in unit.functions.items():
        for fn in fns:
            body = unit.body(fn)
            if body is None:
                continue
            for lp in A.walk(body):
                if lp.get("kind") not in ("ForStmt", "WhileStmt", "DoStmt"):
                    continue
                inner_loops = [x for x in A.walk(lp) if x is not lp and x.get("kind") in ("ForStmt", "WhileStmt", "DoStmt")]
                calls = [c for c in A.calls_in(lp) if A.callee_name(c) == "rtosc_print_arg_val" and len(A.kids(c)) >= 7]
                conv = [c for c in A.calls_in(lp) if A.callee_name(c) == "rtosc_convert_to_range"]
                if calls and conv and not any(any(c2 is c for c2 in A.calls_in(il)) for il in inner_loops for c in calls):
                    out.append((q, fn, lp, calls[0]))
    return out


def run_site(unit, fn, loop, total=6):
    """-> list of mismatches over the scenarios"""
    bad = []
    ps = unit.params(fn)
    for sc in SCENARIOS:
        script = list(sc)
        state = {"k": 0, "pos": None, "cur": None}
        records = []

        def hook(n, ev, script=script, state=state, records=records):
            k = n.get("kind")
            if k == "CallExpr":
                name = A.callee_name(n)
                args = A.kids(n)[1:]
                if name == "rtosc_convert_to_range":
                    if not script:
                        raise FD.Unknown("loop runs longer than the scripted list", n)
                    state["cur"] = script.pop(0)
                    state["pos"] = ev.ev(args[0])
                    return state["cur"][0]
                if name == "next_arg_offset":
                    if state["cur"] is None:
                        raise FD.Unknown("next_arg_offset before rtosc_convert_to_range", n)
                    return state["cur"][1]
                if name == "rtosc_print_arg_val":
                    prev = ev.ev(args[5])
                    records.append((state["k"], state["pos"], prev))
                    state["k"] += 1
                    return 1
                if name in ("rtosc_arg_arr_len", "rtosc_av_arr_len"):
                    return total
                if name == "strlen":
                    return 1
                return 0                     # opaque: output, line breaking, ...
            if k == "MemberExpr":
                return 0
            if k in ("BinaryOperator", "CompoundAssignOperator") and n.get("opcode", "").endswith("=") and n.get("opcode") not in ("==", "!=", "<=", ">="):
                l = A.strip_casts(A.kids(n)[0])
                if l.get("kind") != "DeclRefExpr":
                    return 0                 # store through a pointer / into a member: no effect on the bookkeeping
            if k == "UnaryOperator" and n.get("opcode") in ("++", "--"):
                l = A.strip_casts(A.kids(n)[0])
                if l.get("kind") != "DeclRefExpr":
                    return 0
            if k == "UnaryOperator" and n.get("opcode") in ("*", "&", "__extension__"):
                return 0
            if k == "ArraySubscriptExpr":
                return 0
            if k in ("StringLiteral", "UnaryExprOrTypeTraitExpr", "StmtExpr", "PredefinedExpr"):
                return 0                     # also what glibc's assert() expands to when assertions are compiled in
            return NotImplemented
        env = {}
        for p in ps:
            ct = FD.ctype(A.qtype(p))
            env[p["id"]] = (BASE + 4096 * len(env)) if ct[0] == "ptr" else total
        # locals of the function declared before the loop: evaluated if possible, else 0
        ev = FD.Eval(env=env, node_hook=hook, max_steps=20000)
        for d in A.walk(unit.body(fn)):
            if d is loop:
                break
            if d.get("kind") == "VarDecl" and d["id"] not in ev.env:
                try:
                    ev.env[d["id"]] = ev.ev(A.kids(d)[-1]) if A.kids(d) else 0
                except (FD.Unknown, TypeError):
                    ev.env[d["id"]] = 0
        try:
            ev.run(loop)
        except FD.Unknown as e:
            raise AnalysisBroken("PREV-SLOT: loop at %s not evaluable: %s" % (A.where(loop), e))
        except (FD._Return, FD._Break):
            pass
        if script or not records:
            raise AnalysisBroken("PREV-SLOT: loop at %s did not consume the scripted list (%d left, %d calls)" % (A.where(loop), len(script), len(records)))
        for k, pos, prev in records:
            exp = 0 if k == 0 else pos - SLOT
            if prev != exp:
                bad.append({"slots_per_argument": [c[1] if not c[0] else c[0] for c in sc], "argument": k,
                            "handed": "NULL" if prev == 0 else "position%+d slots" % ((prev - pos) // SLOT) if isinstance(prev, int) and pos and abs(prev - pos) < 64 * SLOT else "something else",
                            "expected": "NULL" if k == 0 else "position-1 slot"})
                break
    return bad
