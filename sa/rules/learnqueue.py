"""LEARN QUEUE: AutomationMgr::clearSlot and the learn step of AutomationMgr::handleMidi, interpreted over every state
of the MIDI-learn queue of three slots, keep the queue a queue: the waiting slots hold the positions 1..n in the order
in which they asked, learn_queue_len is n, and the slot at the head is the one an unbound controller binds.

State model: slots[i].<field> and this-><field> are cells of a dictionary (a reference `auto &s = slots[k]` is the token
("slot", k)); nslots is 3, per_slot 1; setSlot / clearSlotSub / memset / snprintf do nothing that concerns the queue.
The functions are evaluated statement by statement on the AST - no spelling is matched.
"""
import itertools
from .. import astlib as A
from .. import fdeval as FD

NSLOTS = 3
QUEUE_FIELDS = ("learning", "midi_cc", "midi_nrpn")


def queue_states():
    """all states: an ordered selection of waiting slots (position 1 first)"""
    for n in range(NSLOTS + 1):
        for order in itertools.permutations(range(NSLOTS), n):
            yield order


def _run(unit, fn, args, st):
    """evaluate method fn with the state st (dict) - mutated in place"""
    ps = unit.params(fn)

    def slot_of(e, ev):
        v = ev.ev(e)
        if isinstance(v, tuple) and v[0] == "slot":
            return v[1]
        return None

    def cell(n, ev):
        """state key for a member access, or None"""
        if n.get("kind") != "MemberExpr" or not A.kids(n):
            return None
        base = A.strip_casts(A.kids(n)[0])
        if base.get("kind") == "CXXThisExpr":
            return ("this", n.get("name"))
        bv = ev.ev(A.kids(n)[0])
        if isinstance(bv, tuple) and bv[0] in ("slot", "slotptr"):
            return ("slot", bv[1], n.get("name"))
        if bv == ("this",):
            return ("this", n.get("name"))           # through a reference or pointer to the manager
        if bv == ("slots",) and n.get("isArrow"):
            return ("slot", 0, n.get("name"))
        return None

    def get(key, n):
        if key == ("this", "nslots"):
            return NSLOTS
        if key == ("this", "per_slot"):
            return 1
        if key == ("this", "slots"):
            return ("slots",)
        if key[0] == "slot" and not 0 <= key[1] < NSLOTS:
            raise FD.Unknown("slot index %r" % (key[1],), n)
        if key[0] == "slot" and key[2] in ("name", "automations"):
            return ("member", key)
        return st.get(key, 0)

    def hook(n, ev):
        k = n.get("kind")
        ks = A.kids(n)
        if k in ("ExprWithCleanups", "MaterializeTemporaryExpr", "CXXBindTemporaryExpr") and ks:
            return ev.ev(ks[0])
        if k == "CXXThisExpr":
            return ("this",)
        if k == "UnaryOperator" and n.get("opcode") == "*":
            v = ev.ev(ks[0])
            if v == ("this",):
                return v
            if isinstance(v, tuple) and v[0] == "slotptr":
                return ("slot", v[1])
            if v == ("slots",):
                return ("slot", 0)
            return NotImplemented
        if k == "BinaryOperator" and n.get("opcode") in ("+", "-", "==", "!=", "<", ">", "<=", ">="):
            tl, tr = A.qtype(ks[0]) or "", A.qtype(ks[1]) or ""
            if "AutomationSlot" in tl or "AutomationSlot" in tr:
                def idx(v):
                    if v == ("slots",):
                        return 0
                    if isinstance(v, tuple) and v[0] == "slotptr":
                        return v[1]
                    return None
                a, b = ev.ev(ks[0]), ev.ev(ks[1])
                ia, ib = idx(a), idx(b)
                op = n.get("opcode")
                if op == "+" and ia is not None and isinstance(b, int):
                    return ("slotptr", ia + b)
                if op == "+" and ib is not None and isinstance(a, int):
                    return ("slotptr", ib + a)
                if op == "-" and ia is not None and isinstance(b, int):
                    return ("slotptr", ia - b)
                if ia is not None and ib is not None:
                    return {"-": ia - ib, "==": int(ia == ib), "!=": int(ia != ib), "<": int(ia < ib), ">": int(ia > ib), "<=": int(ia <= ib), ">=": int(ia >= ib)}[op]
                raise FD.Unknown("slot pointer arithmetic on %r, %r" % (a, b), n)
            return NotImplemented
        if k == "UnaryOperator" and n.get("opcode") in ("++", "--") and "AutomationSlot" in (A.qtype(ks[0]) or "") and "*" in (A.qtype(ks[0]) or ""):
            rid = A.ref_id(ks[0])
            v = ev.env.get(rid)
            if rid is None or not (v == ("slots",) or (isinstance(v, tuple) and v[0] == "slotptr")):
                raise FD.Unknown("step of a slot pointer", n)
            i0 = 0 if v == ("slots",) else v[1]
            ev.env[rid] = ("slotptr", i0 + (1 if n.get("opcode") == "++" else -1))
            return v if n.get("isPostfix") else ev.env[rid]
        if k == "MemberExpr":
            key = cell(n, ev)
            if key is not None:
                return get(key, n)
            return NotImplemented
        if k == "ArraySubscriptExpr":
            b = ev.ev(ks[0])
            if isinstance(b, tuple) and b[0] == "slotptr":
                i = ev.ev(ks[1])
                return ("slot", b[1] + i)
            if b == ("slots",):
                i = ev.ev(ks[1])
                if not isinstance(i, int):
                    raise FD.Unknown("slot index %r" % (i,), n)
                return ("slot", i)
            if isinstance(b, tuple) and b[0] == "member":
                return 0
            return NotImplemented
        if k == "BinaryOperator" and n.get("opcode") == "=" and A.strip_casts(ks[0]).get("kind") == "BinaryOperator" and A.strip_casts(ks[0]).get("opcode") in (".*", "->*"):
            l = A.strip_casts(ks[0])
            b, m = ev.ev(A.kids(l)[0]), ev.ev(A.kids(l)[1])
            if isinstance(b, tuple) and b[0] in ("slot", "slotptr") and isinstance(m, tuple) and m[0] == "memptr":
                v = ev.ev(ks[1])
                st[("slot", b[1], m[1])] = v
                return v
            raise FD.Unknown("store through a pointer to member on %r" % (b,), n)
        if k == "BinaryOperator" and n.get("opcode") == "=":
            l = A.strip_casts(ks[0])
            key = cell(l, ev) if l.get("kind") == "MemberExpr" else None
            if key is not None:
                v = ev.ev(ks[1])
                st[key] = v
                return v
            return NotImplemented
        if k == "CompoundAssignOperator":
            l = A.strip_casts(ks[0])
            key = cell(l, ev) if l.get("kind") == "MemberExpr" else None
            if key is not None:
                v = ev.ev(ks[1])
                old = get(key, n)
                op = n.get("opcode")
                if op not in ("+=", "-="):
                    raise FD.Unknown("compound assignment %s on a queue cell" % op, n)
                st[key] = old + v if op == "+=" else old - v
                return st[key]
            return NotImplemented
        if k == "UnaryOperator" and n.get("opcode") in ("++", "--"):
            l = A.strip_casts(ks[0])
            key = cell(l, ev) if l.get("kind") == "MemberExpr" else None
            if key is not None:
                old = get(key, n)
                st[key] = old + (1 if n.get("opcode") == "++" else -1)
                return old if n.get("isPostfix") else st[key]
            return NotImplemented
        if k == "UnaryOperator" and n.get("opcode") == "&" and A.strip_casts(ks[0]).get("kind") == "DeclRefExpr" and \
                (A.strip_casts(ks[0]).get("referencedDecl") or {}).get("kind") == "FieldDecl":
            return ("memptr", A.strip_casts(ks[0])["referencedDecl"].get("name"))       # &AutomationSlot::midi_cc
        if k == "BinaryOperator" and n.get("opcode") in (".*", "->*"):
            b, m = ev.ev(ks[0]), ev.ev(ks[1])
            if isinstance(b, tuple) and b[0] in ("slot", "slotptr") and isinstance(m, tuple) and m[0] == "memptr":
                return get(("slot", b[1], m[1]), n)
            raise FD.Unknown("pointer to member on %r" % (b,), n)
        if k == "UnaryOperator" and n.get("opcode") == "&":
            try:
                v = ev.ev(ks[0])
            except FD.Unknown:
                return ("addr", id(n))
            if isinstance(v, tuple):
                return v
            return ("addr", id(n))
        if k == "DeclRefExpr" and (n.get("referencedDecl") or {}).get("kind") == "EnumConstantDecl":
            d = unit.by_id.get(n["referencedDecl"]["id"])
            vs = [x for x in A.walk(d)] if d is not None else []
            for x in vs:
                if x.get("kind") == "ConstantExpr" and x.get("value") is not None:
                    return int(x["value"])
                if x.get("kind") == "IntegerLiteral":
                    return int(x["value"])
            raise FD.Unknown("enum constant %s" % n["referencedDecl"].get("name"), n)
        if k == "CallExpr" and A.callee_name(n) in ("find_if", "find_if_not", "any_of", "none_of", "all_of", "count_if"):
            # the standard searches over the slots with a predicate written as a lambda
            nm = A.callee_name(n)
            first, last = ev.ev(ks[1]), ev.ev(ks[2])
            lam = [y for y in A.walk(ks[3]) if y.get("kind") == "LambdaExpr"]
            i0 = 0 if first == ("slots",) else (first[1] if isinstance(first, tuple) and first[0] == "slotptr" else None)
            i1 = last[1] if isinstance(last, tuple) and last[0] == "slotptr" else None
            if len(lam) != 1 or i0 is None or i1 is None:
                raise FD.Unknown("%s over something else than the slots" % nm, n)
            ops = [y for y in A.walk(lam[0]) if y.get("kind") == "CXXMethodDecl" and (y.get("name") or "") == "operator()" and unit.body(y) is not None]
            if len(ops) != 1:
                raise FD.Unknown("lambda without a body", n)
            hits = [i for i in range(i0, i1) if ev.call_function(unit, ops[0], [("slot", i)])]
            if nm == "find_if":
                return ("slotptr", hits[0] if hits else i1)
            if nm == "find_if_not":
                miss = [i for i in range(i0, i1) if i not in hits]
                return ("slotptr", miss[0] if miss else i1)
            if nm == "count_if":
                return len(hits)
            return int({"any_of": bool(hits), "none_of": not hits, "all_of": len(hits) == i1 - i0}[nm])
        if k in ("CXXMemberCallExpr", "CallExpr"):
            nm = A.callee_name(n)
            if nm is None and k == "CXXMemberCallExpr":
                nm = A.strip_casts(ks[0]).get("name")
            if nm in ("setSlot", "setSlotSub", "clearSlotSub", "memset", "snprintf", "printf", "__assert_fail", "strncpy", "strcpy", "updateMapping",
                      "__builtin_memset", "__builtin___memset_chk", "__builtin___snprintf_chk", "setparameternumber"):
                for a in ks[1:]:
                    try:
                        ev.ev(a)
                    except FD.Unknown:
                        pass
                return 0
            fs = [f for q, fl in unit.functions.items() if q.split("::")[-1] == (nm or "") for f in fl if unit.body(f) is not None]
            if len(fs) == 1 and fs[0] is not fn:
                args_ = [ev.ev(a) for a in (ks[1:] if k == "CallExpr" else ks[1:])]
                if len(args_) != len(unit.params(fs[0])):
                    raise FD.Unknown("call to %s" % nm, n)
                return ev.call_function(unit, fs[0], args_)
            raise FD.Unknown("call to %s" % nm, n)
        if k == "LambdaExpr":
            raise FD.Unknown("lambda", n)
        return NotImplemented
    env = {p["id"]: a for p, a in zip(ps, args)}
    ev = FD.Eval(env=env, node_hook=hook, max_steps=6000)
    try:
        ev.run(unit.body(fn))
    except FD._Return as r:
        return r.v
    return None


def initial(order):
    st = {("this", "learn_queue_len"): len(order)}
    for i in range(NSLOTS):
        st[("slot", i, "learning")] = order.index(i) + 1 if i in order else -1
        st[("slot", i, "midi_cc")] = -1
        st[("slot", i, "midi_nrpn")] = -1
    return st


def queue_of(st):
    return {i: st.get(("slot", i, "learning")) for i in range(NSLOTS)}, st.get(("this", "learn_queue_len"))


def expected_after_removal(order, gone):
    rest = [s for s in order if s != gone]
    return {i: (rest.index(i) + 1 if i in rest else -1) for i in range(NSLOTS)}, len(rest)


def check_clear(unit):
    fn = unit.function("AutomationMgr::clearSlot")
    bad, n = [], 0
    for order in queue_states():
        for k in range(NSLOTS):
            st = initial(order)
            # every slot is bound to controllers as well: clearing one unbinds it and leaves the others bound
            for i in range(NSLOTS):
                st[("slot", i, "midi_cc")] = 20 + i
                st[("slot", i, "midi_nrpn")] = 300 + i
            _run(unit, fn, [k], st)
            n += 1
            got = queue_of(st)
            want = expected_after_removal(order, k)
            bound = {i: (st.get(("slot", i, "midi_cc")), st.get(("slot", i, "midi_nrpn"))) for i in range(NSLOTS)}
            want_bound = {i: ((-1, -1) if i == k else (20 + i, 300 + i)) for i in range(NSLOTS)}
            if bound != want_bound:
                bad.append({"waiting_in_order": list(order), "cleared": k, "controller_bindings_afterwards": bound, "expected_bindings": want_bound})
                continue
            if got != want:
                bad.append({"waiting_in_order": list(order), "cleared": k, "positions_afterwards": got[0], "learn_queue_len": got[1],
                            "expected_positions": want[0], "expected_len": want[1]})
    return bad, n


def check_learn(unit):
    """an unbound plain controller: the head of the queue is bound to it and leaves the queue"""
    fn = unit.function("AutomationMgr::handleMidi")
    ps = unit.params(fn)
    if len(ps) != 3:
        raise FD.Unknown("handleMidi: parameters (channel, type, value) not recognised", fn)
    bad, n = [], 0
    CH, CC, VAL = 0, 20, 64
    for order in queue_states():
        # second world: the slots that do not wait are bound to an NRPN that has the number of the plain controller - the two
        # number spaces overlap (channel*128+cc against (hi<<7)+lo), a plain controller is looked up among the plain bindings only
        for nrpn_twin in (False, True):
            idle = [i for i in range(NSLOTS) if i not in order]
            if nrpn_twin and not idle:
                continue
            st = initial(order)
            if nrpn_twin:
                for i in idle:
                    st[("slot", i, "midi_nrpn")] = CH * 128 + CC
            _run(unit, fn, [CH, CC, VAL], st)
            n += 1
            got = queue_of(st)
            head = order[0] if order else None
            want = expected_after_removal(order, head) if head is not None else expected_after_removal(order, None)
            bound = {i: st.get(("slot", i, "midi_cc")) for i in range(NSLOTS)}
            want_bound = {i: (CH * 128 + CC if i == head else -1) for i in range(NSLOTS)}
            if got != want or bound != want_bound:
                bad.append({"waiting_in_order": list(order), "controller": CH * 128 + CC, "slots_bound_to_an_nrpn_of_that_number": idle if nrpn_twin else [],
                            "positions_afterwards": got[0], "learn_queue_len": got[1], "bound_cc": bound,
                            "expected_positions": want[0], "expected_len": want[1], "expected_bound_cc": want_bound})
    return bad, n
