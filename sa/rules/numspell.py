"""NUMERIC-SPELLING: the format the readers choose for an integer token (scanf_fmtstr, shared by checker and scanner),
applied to that token, yields the value the spelling denotes as a C integer literal - decimal, 0x hexadecimal, leading-zero
octal - with and without the `i` suffix alike; digits that are no C literal ("08") are read as decimal.

scanf_fmtstr and its helper try_fmt are evaluated on the AST over probe tokens; string literals are carried as Python
strings, sscanf is the model of scanfmodel.py; the chosen `%*...%n` format is then applied (without the `*`) to the token.
"""
import re

from .. import astlib as A
from .. import fdeval as FD
from ..facts import AnalysisBroken
from . import scanfmodel as SM

BASE = 1 << 18
TOKENS = ["42", "0", "7", "077", "0755", "010", "-012", "+7", "08", "019", "0x1f", "0X1F", "0xdeadbeef", "-0x10", "2147483647", "-2147483648"]


def reference(tok):
    """value of the spelling as a C integer literal (None: not one; then decimal is expected)"""
    m = re.match(r'^([+-]?)(0[xX][0-9a-fA-F]+|0[0-7]*|[1-9][0-9]*)$', tok)
    if not m:
        return None
    sign, body = m.groups()
    if body[:2].lower() == "0x":
        v = int(body[2:], 16)
    elif body.startswith("0") and len(body) > 1:
        v = int(body, 8)
    else:
        v = int(body, 10)
    return -v if sign == "-" else v


def chosen_format(unit, fn, text):
    """(format string or None, type tag) scanf_fmtstr picks for the token at the start of `text`"""
    typ = {"v": 0}

    def deref(addr, n):
        k = addr - BASE
        if 0 <= k <= len(text):
            return ord(text[k]) if k < len(text) else 0
        raise FD.Unknown("read outside the probe token", n)

    def hook(n, ev):
        k = n.get("kind")
        if k == "StringLiteral":
            return A.string_literal(n)
        if k == "InitListExpr" and len(A.kids(n)) == 1 and A.string_literal(A.kids(n)[0]) is not None:
            return A.string_literal(A.kids(n)[0])
        if k == "ImplicitCastExpr" and n.get("castKind") == "ArrayToPointerDecay":
            inner = A.kids(n)[0]
            if A.string_literal(inner) is not None:
                return A.string_literal(inner)
            return ev.ev(inner)
        if k in ("MemberExpr", "ArraySubscriptExpr"):
            r_ = FD.const_aggregate(unit, n, ev)
            if r_ is not NotImplemented:
                return r_
        if k == "BinaryOperator" and n.get("opcode") == "=":
            l = A.strip_casts(A.kids(n)[0])
            if l.get("kind") == "UnaryOperator" and l.get("opcode") == "*":
                typ["v"] = ev.ev(A.kids(n)[1])       # *typesrc = type
                return typ["v"]
        if k == "UnaryOperator" and n.get("opcode") == "&":
            return ("addr", A.ref_id(A.kids(n)[0]))
        if k == "CallExpr":
            name = A.callee_name(n)
            args = A.kids(n)[1:]
            if name == "sscanf":
                at = ev.ev(args[0])
                fmt = ev.ev(args[1])
                if not isinstance(fmt, str):
                    raise FD.Unknown("sscanf with a format that is not a literal", n)
                got, _ = SM.scan(text[at - BASE:], fmt)
                outs = args[2:]
                cnt = 0
                for (c, v), o in zip(got, outs):
                    tgt = ev.ev(o)
                    if isinstance(tgt, tuple) and tgt[0] == "addr":
                        ev.env[tgt[1]] = v
                    if c != "n":
                        cnt += 1
                return cnt
            if name == "strncmp":
                a, b, ln = ev.ev(args[0]), ev.ev(args[1]), ev.ev(args[2])
                sa = text[a - BASE:a - BASE + ln] if isinstance(a, int) else a[:ln]
                sb = text[b - BASE:b - BASE + ln] if isinstance(b, int) else b[:ln]
                return 0 if sa == sb else (1 if sa > sb else -1)
            if name in ("memchr", "strchr"):
                a, ch = ev.ev(args[0]), ev.ev(args[1])
                ln = ev.ev(args[2]) if name == "memchr" else 10 ** 6
                seg = text[a - BASE:a - BASE + ln]
                i_ = seg.find(chr(ch))
                return a + i_ if i_ >= 0 else 0
            if name in ("isspace", "isdigit", "isalpha", "isalnum"):
                v = ev.ev(args[0])
                c = chr(v) if 0 < v < 128 else ""
                return 1 if c and getattr(c, name)() else 0
            fns = [f for f in unit.functions.get(name, []) if unit.body(f) is not None]
            if len(fns) == 1:
                return ev.call_function(unit, fns[0], [ev.ev(a) for a in args])
            raise FD.Unknown("call to %s" % name, n)
        if k == "BinaryOperator" and n.get("opcode") == "&":
            # glibc ctype macro
            enum = [y["referencedDecl"]["name"] for y in A.walk(A.kids(n)[1]) if y.get("kind") == "DeclRefExpr" and (y.get("referencedDecl") or {}).get("kind") == "EnumConstantDecl"]
            subs = [y for y in A.walk(A.kids(n)[0]) if y.get("kind") == "ArraySubscriptExpr"]
            if len(enum) == 1 and enum[0].startswith("_IS") and subs:
                v = ev.ev(A.kids(subs[0])[1])
                c = chr(v) if 0 < v < 128 else ""
                pred = {"_ISalpha": str.isalpha, "_ISdigit": str.isdigit, "_ISalnum": str.isalnum, "_ISspace": str.isspace}.get(enum[0])
                if pred is None:
                    raise FD.Unknown("ctype class " + enum[0], n)
                return 1 if c and pred(c) else 0
        if k in ("BinaryOperator",) and n.get("opcode") in ("==", "!="):
            a, b = ev.ev(A.kids(n)[0]), ev.ev(A.kids(n)[1])
            if isinstance(a, str) or isinstance(b, str):
                eq = (a == b)
                return (1 if eq else 0) if n.get("opcode") == "==" else (0 if eq else 1)
        return NotImplemented
    ev = FD.Eval(deref=deref, node_hook=hook, max_steps=8000)
    r = ev.call_function(unit, fn, [BASE, ("addr", "type-out")])
    return (r if isinstance(r, str) else None), typ["v"]


def value_of(tok, fmt):
    got, ok = SM.scan(tok, fmt.replace("%*", "%", 1))
    vals = [v for c, v in got if c != "n"]
    n = [v for c, v in got if c == "n"]
    if not vals or not n or n[-1] != len(tok):
        return None
    return vals[0]


def run(unit):
    fn = unit.function("scanf_fmtstr")
    bad = []
    n = 0
    for tok in TOKENS:
        ref = reference(tok)
        exp = ref if ref is not None else int(tok, 10)
        for suffix in (("", "i") if ref is not None else ("",)):      # the suffix is only defined on C literals
            text = tok + suffix
            try:
                fmt, typ = chosen_format(unit, fn, text + " ")
            except FD.Unknown as e:
                raise AnalysisBroken("NUMERIC-SPELLING: scanf_fmtstr not evaluable on %r: %s" % (text, e))
            n += 1
            if fmt is None or typ != ord("i"):
                bad.append({"token": text, "format": fmt, "type": chr(typ) if typ else None, "expected_type": "i"})
                continue
            v = value_of(text, fmt)
            if v is None or (v - exp) % (1 << 32) != 0:
                bad.append({"token": text, "read_with": fmt, "value": v, "denotes": exp})
    return bad, n
