"""G8 - sibling recognisers of the pretty-format grammar (syntax checker vs scanner).

Helpers to lift, from the two hand-written recognisers, the character a top-level
`switch(*src)` dispatches on, the keyword -> tag tables, and the ordered chain of
token-class predicates in the `default:` branch; and to *evaluate* two predicates
over a finite set of probe strings when they are not spelled identically
(finite-domain evaluation with a small model of the sscanf directives they use).
"""
import itertools
import re

from .. import astlib as A
from .. import fdeval as FD
from ..facts import AnalysisBroken
from . import codec as C


def top_switch(unit, fn):
    """the switch over the first character (`switch(*src)`) of a recogniser"""
    for sw in C.find_switches(unit.body(fn)):
        c = A.strip_casts(A.kids(sw)[0])
        if c.get("kind") == "UnaryOperator" and c.get("opcode") == "*":
            return sw
    raise AnalysisBroken("anchor vanished: switch(*src) in %s" % fn.get("name"))


def labels(sw):
    tab = C.case_table(sw)
    return {(chr(l) if l != "default" else "default") for l in tab}


def default_chain(sw):
    """conditions of the if / else-if chain that starts the default: branch, in order; last entry None = final else"""
    tab = C.case_table(sw)
    stmts = tab.get("default")
    if not stmts:
        raise AnalysisBroken("recogniser has no default: branch")
    first = stmts[0]
    if first.get("kind") == "CompoundStmt":
        first = A.kids(first)[0]
    out = []
    cur = first
    while cur is not None and cur.get("kind") == "IfStmt":
        ks = A.kids(cur)
        out.append(ks[0])
        cur = ks[2] if len(ks) > 2 else None
    out.append(None)
    return out


def norm(e):
    t = re.sub(r'\s+', '', A.src(e))
    t = t.replace("(int)", "").replace("(unsignedchar)", "")
    return t


# ---------------------------------------------------------------------------
# a small model of the sscanf directives used by the token-class predicates

def mini_sscanf(s, fmt):
    """returns the value stored by the trailing %n (0 if the match fails before it)"""
    i = 0
    j = 0
    while j < len(fmt):
        ch = fmt[j]
        if ch.isspace():
            while i < len(s) and s[i].isspace():
                i += 1
            j += 1
            continue
        if ch != "%":
            if i < len(s) and s[i] == ch:
                i += 1
                j += 1
                continue
            return 0
        m = re.match(r'%(\*?)(\d*)([dnxif])', fmt[j:])
        if not m:
            raise FD.Unknown("sscanf directive not modelled: " + fmt[j:j + 6])
        star, width, conv = m.groups()
        j += m.end()
        if conv == "n":
            return i
        if conv in ("d",):
            while i < len(s) and s[i].isspace():
                i += 1
            w = int(width) if width else 10 ** 6
            k = i
            if k < len(s) and s[k] in "+-" and w > 0:
                k += 1
                w -= 1
            d0 = k
            while k < len(s) and s[k].isdigit() and w > 0:
                k += 1
                w -= 1
            if k == d0:
                return 0
            i = k
            continue
        raise FD.Unknown("sscanf conversion %" + conv + " not modelled")
    return 0


def eval_predicate(unit, expr, probe, depth=0):
    """truth value of a token-class predicate on the text `probe` (src points at probe[0])"""
    if depth > 3:
        raise FD.Unknown("predicate helper recursion too deep", expr)

    def ch(k):
        return ord(probe[k]) if 0 <= k < len(probe) else 0

    def hook(n, ev):
        k = n.get("kind")
        if k == "CallExpr":
            name = A.callee_name(n)
            args = A.kids(n)[1:]
            if name in ("skip_fmt", "skip_fmt_null"):
                lit = A.string_literal(args[1])
                if lit is None:
                    raise FD.Unknown("non-literal format", n)
                return mini_sscanf(probe, lit)
            if name in ("isalpha", "isdigit", "isalnum", "isspace", "isxdigit"):
                v = ev.ev(args[0])
                c = chr(v) if 0 < v < 128 else ""
                return 1 if c and getattr(c, name)() else (1 if name == "isxdigit" and c and c in "0123456789abcdefABCDEF" else 0)
            fns = unit.functions.get(name)
            if fns:
                body = [s for s in A.kids(unit.body(fns[0]))]
                if name == "is_range_multiplier":
                    m = re.match(r'^[1-9][0-9]*x', probe)
                    return 1 if m else 0
                if len(body) == 1 and body[0].get("kind") == "ReturnStmt":
                    return 1 if eval_predicate(unit, A.kids(body[0])[0], probe, depth + 1) else 0
            raise FD.Unknown("call to %s in a token-class predicate" % name, n)
        if k == "BinaryOperator" and n.get("opcode") == "&":
            # glibc's <ctype.h> macros: ((*__ctype_b_loc())[(int)(c)] & (unsigned short)_ISalpha)
            enum = [y["referencedDecl"]["name"] for y in A.walk(A.kids(n)[1]) if y.get("kind") == "DeclRefExpr" and (y.get("referencedDecl") or {}).get("kind") == "EnumConstantDecl"]
            subs = [y for y in A.walk(A.kids(n)[0]) if y.get("kind") == "ArraySubscriptExpr"]
            if len(enum) == 1 and enum[0].startswith("_IS") and subs and any(A.callee_name(c_) == "__ctype_b_loc" for c_ in A.calls_in(A.kids(n)[0])):
                v = ev.ev(A.kids(subs[0])[1])
                c = chr(v) if 0 < v < 128 else ""
                pred = {"_ISalpha": str.isalpha, "_ISdigit": str.isdigit, "_ISalnum": str.isalnum, "_ISspace": str.isspace,
                        "_ISxdigit": lambda x: x in "0123456789abcdefABCDEF", "_ISupper": str.isupper, "_ISlower": str.islower,
                        "_ISprint": str.isprintable, "_ISpunct": lambda x: x.isprintable() and not x.isalnum() and not x.isspace()}.get(enum[0])
                if pred is None:
                    raise FD.Unknown("ctype class " + enum[0], n)
                return 1 if c and pred(c) else 0
            return NotImplemented
        if k == "ArraySubscriptExpr":
            idx = ev.ev(A.kids(n)[1])
            return ch(idx)
        if k == "UnaryOperator" and n.get("opcode") == "*":
            return ch(0)
        return NotImplemented
    return bool(FD.Eval(node_hook=hook).ev(expr))


def probes():
    out = set()
    for n in range(1, 8):
        for t in itertools.product("1 -", repeat=n):
            out.add("".join(t))
    out.update(["2016-11-16", "2016-11-16 19:44", "2016-11-16 19:44:06.5", "1-11-16", "12345-11-16", "0 0 -7", "0 5 -7]", "-7", "17", "1.5", "abc", "_x", "3x1", "10x-1",
                "1234-", "1234-5", "12-34-56", "1 2 -3 4", "0x12", "1e-5", "-1e-5", "1e-05 2"])
    return sorted(out)


# ---------------------------------------------------------------------------
# separator skipping (white space and %-comments) of the entry loops

def mini_sscanf_full(s, fmt):
    """like mini_sscanf, plus the %*[^\\n] scanset"""
    i = 0
    j = 0
    while j < len(fmt):
        ch = fmt[j]
        if ch.isspace():
            while i < len(s) and s[i].isspace():
                i += 1
            j += 1
            continue
        if fmt.startswith("%*[^\n]", j):
            k = i
            while k < len(s) and s[k] != "\n":
                k += 1
            if k == i:
                return 0          # a scanset must match at least one character
            i = k
            j += len("%*[^\n]")
            continue
        if ch != "%":
            if i < len(s) and s[i] == ch:
                i += 1
                j += 1
                continue
            return 0
        if fmt.startswith("%n", j):
            return i
        raise FD.Unknown("sscanf directive not modelled: " + fmt[j:j + 8])
    return 0


_UNIT = {"u": None}
_LIBSCAN = ("strcspn", "strspn", "strchr", "strlen", "strpbrk", "strchrnul", "__builtin_strchr", "__builtin_strlen", "__builtin_strcspn", "__builtin_strspn")


def _cursor_helper(name):
    """a small helper of the unit that advances a cursor handed to it as `const char **` and calls nothing but the
    skipping primitives and the C string scans"""
    u = _UNIT["u"]
    if u is None or not name:
        return False
    hs = [h for h in u.functions.get(name, []) if u.body(h) is not None]
    if len(hs) != 1 or not any((A.qtype(p_) or "").count("*") == 2 and "char" in (A.qtype(p_) or "") for p_ in u.params(hs[0])):
        return False
    if sum(1 for _ in A.walk(u.body(hs[0]))) > 150:
        return False
    return all(A.callee_name(c) in ("skip_while", "skip_fmt", "__ctype_b_loc") + _LIBSCAN for c in A.calls_in(u.body(hs[0])))


def _is_skip_stmt(s):
    """statement consisting only of white-space / comment skipping"""
    calls = [A.callee_name(c) for c in A.calls_in(s)]
    helpers = [c for c in calls if c not in ("skip_while", "skip_fmt", "__ctype_b_loc") and _cursor_helper(c)]
    if helpers and all(c in ("skip_while", "skip_fmt", "__ctype_b_loc") or c in helpers for c in calls):
        return True
    if any(c not in ("skip_while", "skip_fmt", "__ctype_b_loc") for c in calls):
        return False
    isspace_macro = any(y.get("kind") == "DeclRefExpr" and (y.get("referencedDecl") or {}).get("name") == "_ISspace" for y in A.walk(s))
    return bool(calls) and ("skip_while" in calls or "skip_fmt" in calls or isspace_macro)


def separator_runs(unit, fn):
    """[(statements, cursor decl id)] - maximal runs of skipping statements around each `while(*X == '%')` loop"""
    out = []
    seen = set()
    _UNIT["u"] = unit
    for w in A.walk(unit.body(fn)):
        if w.get("kind") != "WhileStmt":
            continue
        c = A.strip_casts(A.kids(w)[0])
        if not (c.get("kind") == "BinaryOperator" and c.get("opcode") == "==" and A.int_literal(A.kids(c)[1]) == ord("%")):
            continue
        cur = None
        for y in A.walk(c):
            if y.get("kind") == "DeclRefExpr":
                cur = y["referencedDecl"]["id"]
        # climb to the outermost enclosing statement that is still a pure skip statement
        top = w
        for p in unit.ancestors(w):
            if p.get("kind") in ("DoStmt", "IfStmt", "CompoundStmt") and _is_skip_stmt(p):
                top = p
            else:
                break
        parent = unit.parent.get(top.get("id"))
        if parent is None or parent.get("kind") != "CompoundStmt":
            sibs = [top]
            idx = 0
        else:
            sibs = A.kids(parent)
            idx = sibs.index(top)
        lo = idx
        while lo - 1 >= 0 and _is_skip_stmt(sibs[lo - 1]):
            lo -= 1
        hi = idx
        while hi + 1 < len(sibs) and _is_skip_stmt(sibs[hi + 1]):
            hi += 1
        key = tuple(s_.get("id") for s_ in sibs[lo:hi + 1])
        if key in seen:
            continue
        seen.add(key)
        out.append((sibs[lo:hi + 1], cur, w))
    # the skipping may live in a helper of the unit that advances the caller's cursor through a pointer to it
    # (`skip(&src)`): each call site is one run, evaluated on the helper's body with `*param` as the cursor
    for c in A.calls_in(unit.body(fn)):
        nm = A.callee_name(c)
        if nm in ("skip_fmt", "skip_fmt_null", "skip_while") or nm is None:
            continue
        for h in unit.functions.get(nm, []):
            hb = unit.body(h)
            if hb is None:
                continue
            for w in A.walk(hb):
                if w.get("kind") not in ("WhileStmt", "ForStmt", "DoStmt"):
                    continue
                cond = [x for x in A.kids(w) if x.get("kind") not in ("CompoundStmt", "NullStmt", "DeclStmt")]
                hit = None
                for cnd in cond:
                    cc = A.strip_casts(cnd)
                    if cc.get("kind") == "BinaryOperator" and cc.get("opcode") == "==" and ord("%") in (A.int_literal(A.kids(cc)[0]), A.int_literal(A.kids(cc)[1])):
                        hit = cc
                if hit is None:
                    continue
                ps = {p_["id"] for p_ in unit.params(h) if (A.qtype(p_) or "").count("*") == 2}
                used = [y["referencedDecl"]["id"] for y in A.walk(hit) if y.get("kind") == "DeclRefExpr" and y["referencedDecl"]["id"] in ps]
                if len(used) == 1 and (c.get("id"), used[0]) not in seen:
                    seen.add((c.get("id"), used[0]))
                    SEPARATOR_HELPERS[nm] = (A.kids(hb), used[0])
                    # the call stands among the caller's own skipping statements (`skip_while(&src, isspace); skip(&src);`):
                    # the run is the caller's run, with the helper evaluated in place
                    k_ = [p_["id"] for p_ in unit.params(h)].index(used[0])
                    arg = A.strip_casts(A.kids(c)[1 + k_]) if len(A.kids(c)) > 1 + k_ else {}
                    cur = A.ref_id(A.kids(arg)[0]) if arg.get("kind") == "UnaryOperator" and arg.get("opcode") == "&" and A.kids(arg) else None
                    st = c
                    for anc in unit.ancestors(c):
                        if anc.get("kind") == "CompoundStmt":
                            break
                        st = anc
                    par = unit.parent.get(st.get("id"))

                    def skipish(x):
                        return _is_skip_stmt(x) or (not [y for y in A.calls_in(x) if A.callee_name(y) not in SEPARATOR_HELPERS and A.callee_name(y) not in ("skip_while", "skip_fmt", "__ctype_b_loc")]
                                                    and any(A.callee_name(y) in SEPARATOR_HELPERS for y in A.calls_in(x)))
                    if cur is not None and par is not None and par.get("kind") == "CompoundStmt" and skipish(st):
                        sibs = A.kids(par)
                        idx = next(i_ for i_, s_ in enumerate(sibs) if s_ is st)
                        lo = idx
                        while lo - 1 >= 0 and skipish(sibs[lo - 1]):
                            lo -= 1
                        hi = idx
                        while hi + 1 < len(sibs) and skipish(sibs[hi + 1]):
                            hi += 1
                        run_ = sibs[lo:hi + 1]
                        # the run is the whole body of a loop that repeats it while white space follows (`do { skip } while(isspace(*src))`):
                        # the loop is the run
                        grand = unit.parent.get(par.get("id"))
                        if lo == 0 and hi == len(sibs) - 1 and grand is not None and grand.get("kind") in ("DoStmt", "WhileStmt") and \
                                not [y for y in A.calls_in(grand) if A.callee_name(y) not in SEPARATOR_HELPERS and A.callee_name(y) not in ("skip_while", "skip_fmt", "__ctype_b_loc", "isspace")]:
                            run_ = [grand]
                        out.append((run_, cur, c))
                    else:
                        out.append((A.kids(hb), ("through", used[0]), c))
    return out


SEPARATOR_HELPERS = {}     # name of a unit helper that skips comments through a pointer to the cursor -> (its statements, that parameter)


def run_separator(unit, stmts, cur_id, text):
    """evaluate the skipping statements with the cursor at text[0]; returns the final cursor index.
    cur_id is the cursor's declaration, or ("through", P) when the statements reach the cursor as `*P`"""
    through = isinstance(cur_id, tuple)
    if through:
        cur_id = cur_id[1]

    def is_cursor(e):
        e = A.strip_casts(e)
        if through:
            return e.get("kind") == "UnaryOperator" and e.get("opcode") == "*" and A.ref_id(A.kids(e)[0]) == cur_id
        return e.get("kind") == "DeclRefExpr" and e["referencedDecl"]["id"] == cur_id

    def hook(n, ev):
        k = n.get("kind")
        if through:
            if k == "UnaryOperator" and n.get("opcode") == "*" and is_cursor(A.kids(n)[0]):
                p = ev.env[cur_id] - 4096
                return ord(text[p]) if 0 <= p < len(text) else 0
            if k == "UnaryOperator" and n.get("opcode") in ("++", "--") and is_cursor(A.kids(n)[0]):
                old = ev.env[cur_id]
                ev.env[cur_id] = old + (1 if n.get("opcode") == "++" else -1)
                return old if n.get("isPostfix") else ev.env[cur_id]
            if k == "CompoundAssignOperator" and is_cursor(A.kids(n)[0]):
                d_ = ev.ev(A.kids(n)[1])
                ev.env[cur_id] += d_ if n.get("opcode") == "+=" else -d_
                return ev.env[cur_id]
            if k == "BinaryOperator" and n.get("opcode") == "=" and is_cursor(A.kids(n)[0]):
                v_ = ev.ev(A.kids(n)[1])                # `*src = <a place in the text>`
                if not isinstance(v_, int) or not 4096 <= v_ <= 4096 + len(text):
                    raise FD.Unknown("the cursor is set to %r, no place in the text" % (v_,), n)
                ev.env[cur_id] = v_
                return v_
            if k == "UnaryOperator" and n.get("opcode") == "*" and is_cursor(n):
                return ev.env[cur_id]
        if k == "CallExpr":
            name = A.callee_name(n)
            args = A.kids(n)[1:]
            if name == "skip_fmt":
                lit = A.string_literal(args[1])
                rd = mini_sscanf_full(text[ev.env[cur_id] - 4096:], lit)
                ev.env[cur_id] += rd
                return rd
            if name in SEPARATOR_HELPERS and not through:
                # a helper that advances the caller's cursor through `&cursor`: evaluated in place on the rest of the text
                hst, hp = SEPARATOR_HELPERS[name]
                at = ev.env[cur_id] - 4096
                adv = run_separator(unit, hst, ("through", hp), text[at:])
                ev.env[cur_id] += adv
                return adv
            if name == "skip_while":
                p = ev.env[cur_id] - 4096
                while p < len(text) and text[p].isspace():
                    p += 1
                ev.env[cur_id] = p + 4096
                return 0
            if not through and name not in SEPARATOR_HELPERS:
                # any other helper of the unit that is handed `&cursor`: evaluated in place on the rest of the text
                hs_ = [h_ for h_ in unit.functions.get(name or "", []) if unit.body(h_) is not None]
                k_ = [i_ for i_, a_ in enumerate(args) if A.strip_casts(a_).get("kind") == "UnaryOperator" and A.strip_casts(a_).get("opcode") == "&" and
                      A.ref_id(A.kids(A.strip_casts(a_))[0]) == cur_id]
                if len(hs_) == 1 and len(k_) == 1 and len(unit.params(hs_[0])) == len(args) and (A.qtype(unit.params(hs_[0])[k_[0]]) or "").count("*") == 2:
                    at = ev.env[cur_id] - 4096
                    adv = run_separator(unit, A.kids(unit.body(hs_[0])), ("through", unit.params(hs_[0])[k_[0]]["id"]), text[at:])
                    ev.env[cur_id] += adv
                    return adv
            if name in ("strcspn", "strspn", "strchr", "strlen", "strpbrk", "strchrnul", "__builtin_strchr", "__builtin_strlen", "__builtin_strcspn", "__builtin_strspn"):
                # the C string scans, on the probe text
                a0 = ev.ev(args[0])
                if not isinstance(a0, int) or not 4096 <= a0 <= 4096 + len(text):
                    raise FD.Unknown("%s of %r in separator skipping" % (name, a0), n)
                rest = text[a0 - 4096:]
                nm_ = name.replace("__builtin_", "")
                if nm_ == "strlen":
                    return len(rest)
                if nm_ in ("strchr", "strchrnul"):
                    c_ = ev.ev(args[1]) & 0xff
                    i_ = rest.find(chr(c_)) if c_ else len(rest)
                    return a0 + i_ if i_ >= 0 else (a0 + len(rest) if nm_ == "strchrnul" else 0)
                set_ = A.string_literal(A.strip_casts(args[1]))
                if set_ is None:
                    set_ = A.string_literal(args[1])
                if set_ is None:
                    raise FD.Unknown("%s with a computed character set" % name, n)
                i_ = 0
                if nm_ == "strpbrk":
                    hits = [j for j, ch in enumerate(rest) if ch in set_]
                    return a0 + hits[0] if hits else 0
                while i_ < len(rest) and ((rest[i_] in set_) == (nm_ == "strspn")):
                    i_ += 1
                return i_
            raise FD.Unknown("call to %s in separator skipping" % name, n)
        if k == "BinaryOperator" and n.get("opcode") == "&":
            enum = [y["referencedDecl"]["name"] for y in A.walk(A.kids(n)[1]) if y.get("kind") == "DeclRefExpr" and (y.get("referencedDecl") or {}).get("kind") == "EnumConstantDecl"]
            if enum == ["_ISspace"]:
                subs = [y for y in A.walk(A.kids(n)[0]) if y.get("kind") == "ArraySubscriptExpr"]
                v = ev.ev(A.kids(subs[0])[1])
                return 1 if 0 < v < 128 and chr(v).isspace() else 0
            return NotImplemented
        if k == "UnaryOperator" and n.get("opcode") == "*":
            inner = A.strip_casts(A.kids(n)[0])
            if inner.get("kind") == "DeclRefExpr" and inner["referencedDecl"]["id"] == cur_id:
                p = ev.env[cur_id] - 4096
                return ord(text[p]) if 0 <= p < len(text) else 0
        if k == "UnaryOperator" and n.get("opcode") in ("++", "--"):
            inner = A.strip_casts(A.kids(n)[0])
            if inner.get("kind") == "DeclRefExpr" and inner["referencedDecl"]["id"] == cur_id:
                old = ev.env[cur_id]
                ev.env[cur_id] = old + (1 if n.get("opcode") == "++" else -1)
                return old if n.get("isPostfix") else ev.env[cur_id]
            if inner.get("kind") == "DeclRefExpr":
                return 0      # byte counters (rd) are irrelevant here
        if k == "CompoundAssignOperator":
            l = A.strip_casts(A.kids(n)[0])
            if l.get("kind") == "DeclRefExpr" and l["referencedDecl"]["id"] != cur_id:
                ev.ev(A.kids(n)[1])
                return 0
        return NotImplemented
    BASE = 4096      # the cursor is a non-null pointer: text[k] lives at BASE + k
    ev = FD.Eval(env={cur_id: BASE}, node_hook=hook)
    try:
        for s_ in stmts:
            ev.run(s_)
    except FD._Return:
        pass             # a helper's `return <bytes skipped>`
    return ev.env[cur_id] - BASE


def separator_probes():
    toks = [" ", "\n", "% c\n", "%\n", "  ", "% x % y\n"]
    out = []
    for n in range(0, 4):
        for t in itertools.product(toks, repeat=n):
            sep = "".join(t)
            out.append(sep + "7")
            out.append(sep)
    out.append("% c")
    out.append(" % c")
    return sorted(set(out))


def expected_skip(text):
    i = 0
    while i < len(text):
        if text[i].isspace():
            i += 1
        elif text[i] == "%":
            while i < len(text) and text[i] != "\n":
                i += 1
        else:
            break
    return i


# ---------------------------------------------------------------------------
# evaluation of character-level predicates on a probe text held at address BASE

BASE = 4096


def string_hooks(text, member_values=None):
    """(node_hook, deref) for FD.Eval: pointers are BASE + index into `text`; glibc ctype macros are modelled;
    member_values maps a MemberExpr name to a value (e.g. {'type': ord('S'), 's': BASE})"""
    member_values = member_values or {}

    def deref(addr, n):
        k = addr - BASE
        return ord(text[k]) if 0 <= k < len(text) else 0

    def hook(n, ev):
        k = n.get("kind")
        if k == "MemberExpr" and n.get("name") in member_values:
            return member_values[n.get("name")]
        if k == "BinaryOperator" and n.get("opcode") == "&":
            enum = [y["referencedDecl"]["name"] for y in A.walk(A.kids(n)[1]) if y.get("kind") == "DeclRefExpr" and (y.get("referencedDecl") or {}).get("kind") == "EnumConstantDecl"]
            subs = [y for y in A.walk(A.kids(n)[0]) if y.get("kind") == "ArraySubscriptExpr"]
            if len(enum) == 1 and enum[0].startswith("_IS") and subs:
                v = ev.ev(A.kids(subs[0])[1])
                c = chr(v) if 0 < v < 128 else ""
                pred = {"_ISalpha": str.isalpha, "_ISdigit": str.isdigit, "_ISalnum": str.isalnum, "_ISspace": str.isspace}.get(enum[0])
                if pred is None:
                    raise FD.Unknown("ctype class " + enum[0], n)
                return 1 if c and pred(c) else 0
        if k == "ArraySubscriptExpr":
            base = ev.ev(A.kids(n)[0])
            idx = ev.ev(A.kids(n)[1])
            return deref(base + idx, n)
        return NotImplemented
    return hook, deref
